"""Calls: sidecar rules, contracts, inlined closures, builtins, methods, and the spec language."""
import ast
import fnmatch
import z3

from .vals import (VInt, VBool, VReal, VNone, NONE, VObj, VTup, VOpt, VRef, VFunc, VClass, VExc,
                   HList, HDict, HRec, sort_of, usort, to_z3, from_z3, fresh_name, type_of_val, parse_type,
                   T_INT, T_BOOL, T_STR, T_ANY)
from .state import (State, Unsupported, ContractError, fresh_val, fresh_hlist, fresh_hdict, empty_hlist,
                    empty_hdict, quick_unsat)
from .engine import EXC_PARENT
from .exprs import GHOST

STR_BOOL_METHODS = {'startswith', 'endswith', 'isidentifier', 'isdigit', 'isalpha', 'isspace'}
STR_STR_METHODS = {'strip', 'lstrip', 'rstrip', 'replace', 'lower', 'upper', 'decode', 'encode', 'format',
                   'join', 'title', 'capitalize'}


class CallMixin:
    # ------------------------------------------------------------------ rules
    def find_rule(self, text):
        for table in ((self.cur[0].rules if self.cur else {}), self.global_rules):
            if text in table:
                return table[text]
        for table in ((self.cur[0].rules if self.cur else {}), self.global_rules):
            for pat, r in table.items():
                if any(c in pat for c in '*?[') and fnmatch.fnmatchcase(text, pat):
                    return r
        return None

    def norm_rule(self, r):
        if isinstance(r, str):
            if r == 'NOEFFECT':
                return {'kind': 'noeffect'}
            kind, _, t = r.partition(':')
            return {'kind': kind, 'type': t}
        return r

    def eval_args(self, node, st, k):
        nodes = list(node.args) + [kw.value for kw in node.keywords]
        if any(isinstance(a, ast.Starred) for a in node.args) or any(kw.arg is None for kw in node.keywords):
            raise Unsupported("star-args in call %s (line %s)" % (ast.unparse(node)[:50], node.lineno))

        def fin(s, vs):
            pos = vs[:len(node.args)]
            kws = {kw.arg: v for kw, v in zip(node.keywords, vs[len(node.args):])}
            return k(s, pos, kws)
        return self.ev_list(nodes, st, fin)

    def apply_rule(self, rule, node, st, k):
        text = ast.unparse(node.func)
        if callable(rule):
            self.note('rule', (node.lineno, ast.unparse(node)[:70], getattr(rule, '__name__', 'handler')))
            if getattr(rule, 'raw', False):
                return rule(self, st, node, k)
            return self.eval_args(node, st, lambda s, a, kw: rule(self, s, node, a, kw, k))
        r = self.norm_rule(rule)
        self.note('rule', (node.lineno, ast.unparse(node)[:70], str(rule)))
        kind = r['kind']

        def run(s, args, kws):
            out = []
            for exc in r.get('raises', []):
                s2 = s.copy()
                s2.path.append('%s!%s@%s' % (text, exc, node.lineno))
                out += self.raise_(s2, exc)
            if r.get('never_returns'):
                return out
            if kind == 'noeffect':
                return out + k(s, NONE)
            if kind == 'fresh':
                return out + k(s, fresh_val(parse_type(r['type']), text.split('.')[-1], s))
            if kind == 'pure':
                flat = [a for a in args] + [kws[n] for n in sorted(kws)]
                return out + k(s, self.uf('fn_' + ''.join(c if c.isalnum() else '_' for c in text),
                                       flat, parse_type(r['type'])))
            if kind == 'contract':
                return out + self.call_contract(r['qual'], None, args, kws, s, node, k)
            if kind == 'inline':
                return out + self.inline_def(r['qual'], None, args, kws, s, node, k)
            raise Unsupported("rule kind %r" % kind)
        return self.eval_args(node, st, run)

    # ------------------------------------------------------------------ the call expression
    def ev_Call(self, node, st, k):
        f = node.func
        if self.spec and isinstance(f, ast.Name):
            h = getattr(self, 'spec_' + f.id, None)
            if h is not None:
                return k(st, h(node, st))
            if f.id in self.specfuncs:
                args = [self.pure(a, st) for a in node.args]
                return k(st, self.specfuncs[f.id](self, st, *args))
        if isinstance(f, ast.Name) and f.id in ('any', 'all') and len(node.args) == 1 and not node.keywords \
                and isinstance(node.args[0], (ast.GeneratorExp, ast.ListComp)) and st.lookup(f.id) is None:
            # any/all over a comprehension: a bounded quantifier over the source indices (no intermediate list)
            src, i, cond, kv = self.comp_parts(node.args[0], st)
            if kv is None:
                return k(st, VBool(f.id == 'all'))
            t = self.truth(kv[1], st)
            rng = z3.And(0 <= i, i < src.n, cond)
            return k(st, VBool(z3.Exists([i], z3.And(rng, t)) if f.id == 'any' else z3.ForAll([i], z3.Implies(rng, t))))
        whole = ast.unparse(node)
        if not self.spec and self.cur is not None:
            cs = self.cur[0].callsites.get(whole)
            if cs is None:
                cs = self.cur[0].callsites.get(ast.unparse(f))
            if cs is not None:
                extra = {}
                if any('_arg' in t for t in cs):
                    for n, a in enumerate(node.args):      # the actual arguments, for obligations about them
                        extra['_arg%d' % n] = self.pure(a, st)
                if any('_kw_' in t for t in cs):
                    for kw in node.keywords:
                        if kw.arg:
                            extra['_kw_' + kw.arg] = self.pure(kw.value, st)
                if any('has_kw_' in t for t in cs):            # has_kw_<name>: is the keyword passed at this call?
                    import re as _re
                    given = {kw.arg for kw in node.keywords if kw.arg}
                    for t in cs:
                        for nm in _re.findall(r'\bhas_kw_(\w+)', t):
                            extra['has_kw_' + nm] = VBool(z3.BoolVal(nm in given))
                import re as _re2
                for n, text in enumerate(cs):
                    absent = [m for m in _re2.findall(r'(?<!has)_kw_(\w+)', text) if '_kw_' + m not in extra]
                    absent += [m for m in _re2.findall(r'\b_arg(\d+)', text) if '_arg' + m not in extra]
                    if absent:      # the clause speaks about an argument this call does not pass: it does not hold here
                        self.oblige(st, 'callsite', '%s:%d' % (ast.unparse(f), n), text, z3.BoolVal(False), node.lineno)
                        continue
                    try:
                        goal = self.ev_spec(text, st, extra)
                    except Unsupported as e:
                        if 'is not pure' not in str(e):
                            raise
                        # the clause cannot be evaluated at this call without a partial operation failing (an index past the
                        # end of the argument tuple actually passed, a key that is not there): it does not hold here
                        goal = z3.BoolVal(False)
                    self.oblige(st, 'callsite', '%s:%d' % (ast.unparse(f), n), text, goal, node.lineno)
        rule = self.find_rule(ast.unparse(f))
        if rule is not None:
            return self.apply_rule(rule, node, st, k)
        return self.ev(f, st, lambda s, fv: self.eval_args(node, s, lambda s2, a, kw: self.call_value(fv, a, kw, s2, node, k)))

    def call_value(self, fv, args, kws, st, node, k):
        if isinstance(fv, VFunc):
            kind = fv.kind
            if kind == 'def':
                qual = fv.data['qual']
                if qual in self.contracts:
                    return self.call_contract(qual, None, args, kws, st, node, k)
                if self.can_auto_inline(qual):
                    return self.auto_inline(qual, None, args, kws, st, node, k)
                raise Unsupported("call of %s: no contract and no rule (line %s)" % (qual, node.lineno))
            if kind == 'bound':
                qual = fv.data['qual']
                if qual in self.contracts:
                    return self.call_contract(qual, fv.data['recv'], args, kws, st, node, k)
                if self.can_auto_inline(qual):
                    return self.auto_inline(qual, fv.data['recv'], args, kws, st, node, k)
                raise Unsupported("call of method %s: no contract and no rule (line %s)" % (qual, node.lineno))
            if kind == 'closure':
                return self.inline_closure(fv, args, kws, st, node, k)
            if kind == 'lambda':
                return self.inline_lambda(fv, args, st, node, k)
            if kind == 'method':
                return self.call_method(fv.data['recv'], fv.data['name'], args, kws, st, node, k)
            if kind == 'handler':
                return fv.data['call'](self, st, node, args, kws, k)
        if isinstance(fv, VOpt):
            return self.guard(st, z3.Not(fv.isnone), 'TypeError', 'call-none', node,
                              lambda s: self.call_value(fv.inner, args, kws, s, node, k))
        if isinstance(fv, VObj) and fv.sort in self.callable_sorts:
            return k(st, self.callable_sorts[fv.sort](self, st, fv, args))
        if isinstance(fv, VClass) and (fv.name + '.__init__') in self.contracts:
            c = self.contracts[fv.name + '.__init__']
            obj = self.make_record(fv.name, st, c.self_fields, c.extra.get('dynamic', ()))
            rec = st.heap[obj.rid]
            for d in rec.present:                    # a new object has none of its dynamic attributes yet
                rec.present[d] = z3.BoolVal(False)
            return self.call_contract(fv.name + '.__init__', obj, args, kws, st, node, lambda s, v: k(s, obj))
        if isinstance(fv, VClass):
            name = fv.name
            if name.split('.')[-1] in EXC_PARENT and name not in ('object',):
                return k(st, VExc(name.split('.')[-1], args))
            h = getattr(self, 'bi_' + name.replace('.', '_'), None)
            if h is not None:
                return h(args, kws, st, node, k)
        raise Unsupported("call of %s (line %s): no rule, contract or builtin model" % (ast.unparse(node.func), node.lineno))

    # ------------------------------------------------------------------ inlining
    def bind_params(self, fdef, args, kws, st, skip_self=False):
        env = {}
        params = [a.arg for a in fdef.args.args]
        if skip_self:
            params = params[1:]
        defaults = fdef.args.defaults
        dmap = {}
        allp = [a.arg for a in fdef.args.args]
        for p, d in zip(allp[len(allp) - len(defaults):], defaults):
            dmap[p] = d
        if len(args) > len(params):
            raise Unsupported("too many arguments for %s" % fdef.name)
        for p, a in zip(params, args):
            env[p] = a
        for n, v in kws.items():
            if n not in params:
                if fdef.args.kwarg is not None:       # collected by **kw: an opaque mapping
                    env[fdef.args.kwarg.arg] = VObj('Any', z3.Const(fresh_name('kwargs'), usort('Any')))
                    continue
                raise Unsupported("unexpected keyword %s for %s" % (n, fdef.name))
            env[n] = v
        for p in params:
            if p not in env:
                if p not in dmap:
                    raise Unsupported("missing argument %s for %s" % (p, fdef.name))
                try:
                    env[p] = self.const_val(ast.literal_eval(dmap[p]), st)
                except ValueError:
                    text = ast.unparse(dmap[p])       # a module-level object named in the sidecar's globals
                    keys = [g for g in self.globals if g == text or g.endswith('.' + text)]
                    if len(keys) != 1:
                        raise Unsupported("default value %s of parameter %s of %s" % (text, p, fdef.name))
                    g = self.globals[keys[0]]
                    env[p] = g(self, st) if callable(g) else self.const_val(g, st)
        return env

    def run_inlined(self, body, env, parent, st, node, k):
        caller = st.fid
        st.fid = st.new_frame(env, parent=parent)
        out = []
        for s1, kind, val in self.exec_block(body, st):
            s1.fid = caller
            if kind == 'normal':
                out += k(s1, NONE)
            elif kind == 'return':
                out += k(s1, val)
            elif kind == 'raise':
                out.append((s1, kind, val))
            else:
                raise Unsupported("%s escapes an inlined function (line %s)" % (kind, node.lineno))
        return out

    def inline_closure(self, fv, args, kws, st, node, k):
        fdef = fv.data['node']
        env = self.bind_params(fdef, args, kws, st)
        return self.run_inlined(fdef.body, env, fv.data['fid'], st, node, k)

    def inline_lambda(self, fv, args, st, node, k):
        lam = fv.data['node']
        env = {a.arg: v for a, v in zip(lam.args.args, args)}
        caller = st.fid
        st.fid = st.new_frame(env, parent=fv.data['fid'])

        def back(s, v):
            s.fid = caller
            return k(s, v)
        return self.ev(lam.body, st, back)

    # A helper of the repository that has neither a contract nor a rule (typically one that a refactoring has just
    # extracted) is executed in place when that is plainly sound: a loop-free, non-recursive, non-generator def.  The
    # verified text is still the real code; the ledger records the inlining.
    def can_auto_inline(self, qual):
        try:
            fdef, _, _ = self.find_def(qual)
        except ContractError:
            return False
        if qual in getattr(self, '_inlining', ()):
            return False
        for n in ast.walk(fdef):
            if isinstance(n, (ast.For, ast.While, ast.AsyncFor, ast.Yield, ast.YieldFrom, ast.Await, ast.Global, ast.Nonlocal,
                              ast.ListComp, ast.SetComp, ast.DictComp, ast.GeneratorExp, ast.Lambda)) \
                    or (isinstance(n, (ast.FunctionDef, ast.ClassDef)) and n is not fdef):
                return False
        return not fdef.decorator_list and not fdef.args.vararg and not fdef.args.kwonlyargs

    def auto_inline(self, qual, recv, args, kws, st, node, k):
        stack = self.__dict__.setdefault('_inlining', [])
        stack.append(qual)
        self.note('rule', (node.lineno, 'call of %s' % qual, 'inlined (loop-free helper without contract: its real body is executed in place)'))
        try:
            return self.inline_def(qual, recv, args, kws, st, node, k)
        finally:
            stack.pop()

    def inline_def(self, qual, recv, args, kws, st, node, k):
        fdef, _, _ = self.find_def(qual)
        env = self.bind_params(fdef, args, kws, st, skip_self=recv is not None)
        if recv is not None:
            env[fdef.args.args[0].arg] = recv
        return self.run_inlined(fdef.body, env, None, st, node, k)

    # ------------------------------------------------------------------ contract calls
    def call_contract(self, qual, recv, args, kws, st, node, k):
        c = self.contracts[qual]
        fdef, _, _ = self.find_def(qual)
        env = self.bind_params(fdef, args, kws, st, skip_self=recv is not None)
        if recv is not None:
            env[fdef.args.args[0].arg] = recv
        for p, t in c.params.items():
            if p in env:
                env[p] = self.adapt_arg(env[p], t, st)
                if t[0] == 'obj' and t[1] != 'Any' and isinstance(env[p], VObj) and env[p].sort not in (t[1], 'Any'):
                    # an object of another kind than the callee is specified for (e.g. an internal key where a public
                    # value is expected): outside the callee's contract -- a failing precondition, not a crash
                    self.oblige(st, 'pre', '%s:kind-of-%s' % (ast.unparse(node)[:60], p),
                                '%s is specified for a %s as %s, the call passes a %s' % (qual, t[1], p, env[p].sort),
                                z3.BoolVal(False), node.lineno,
                                props=tuple(c.property) + tuple(self.cur[0].property))
                    env[p] = fresh_val(t, p, st)
        for fv_ in c.extra.get('free', {}):
            # nested function: its free variables are the caller-visible bindings of the enclosing function
            v = st.lookup(fv_)
            if v is None:
                raise ContractError("%s: free variable %s is not bound at the call (line %s)" % (qual, fv_, node.lineno))
            env[fv_] = v
        caller = st.fid
        callee_fid = st.new_frame(env, parent=None)
        st.fid = callee_fid
        text = ast.unparse(node)[:60]
        for n, r in enumerate(c.requires):
            goal = self.ev_spec(r, st)
            st.fid = caller
            self.oblige(st, 'pre', '%s:%d' % (text, n), '%s requires %s' % (qual, r), goal, node.lineno,
                        props=tuple(c.props.get(r, c.property)) + tuple(self.cur[0].property))
            st.fid = callee_fid
        if self.cur[1] == qual and c.decreases:
            d_new = self.ev_spec_val(c.decreases, st)
            top = State.__new__(State)
            top.__dict__.update(st.__dict__)
            d_old = self.ev_spec_val('old(%s)' % c.decreases, self.at_entry_frame(st))
            st.fid = caller
            self.oblige(st, 'decreases', text, c.decreases, z3.And(d_new.z >= 0, d_new.z < d_old.z), node.lineno)
            st.fid = callee_fid
        saved_old = st.snaps.get('old')
        out = []
        forks = [(None, c.ensures + list(c.extra.get('assumed_ensures', [])))] + [(e, posts) for e, posts in c.raises.items()]
        for exc, posts in forks:
            s = st if exc is None and not c.raises else st.copy()
            s.fid = callee_fid
            s.snapshot('old')
            if exc is not None:
                s.path.append('%s!%s@%s' % (qual.split('.')[-1], exc, node.lineno))
            self.havoc_modifies(c, s)
            res = NONE
            if exc is None and c.returns is not None:
                res = fresh_val(c.returns, 'ret_' + qual.split('.')[-1], s)
            for tgt, e in c.assigns.items():
                v = self.ev_spec_val(e, s)
                base = self.resolve_static(ast.parse(tgt, mode='eval').body.value, s)
                h = s.heap[base.rid]
                f = dict(h.fields)
                f[tgt.split('.')[-1]] = v
                s.heap[base.rid] = HRec(h.cls, f, h.present)
            s.frames[callee_fid]['_ret'] = res
            if 'result' not in env:
                s.frames[callee_fid]['result'] = res
            for p in posts:
                try:
                    z = self.ev_spec(p, s)
                except ContractError as e:
                    if 'is not declared' in str(e):
                        continue      # about ghost state this caller does not track: not assumed (assuming less is sound)
                    raise
                s.assume(z, qf=not self.has_quant(z))
            if saved_old is not None:
                s.snaps['old'] = saved_old
            s.fid = caller
            if exc is not None and quick_unsat([z for z, q in s.pc if q]):
                self.stats['pruned'] += 1
                continue
            if exc is None:
                out += k(s, res)
            else:
                out.append((s, 'raise', VExc(exc)))
        return out

    def at_entry_frame(self, st):
        s = State.__new__(State)
        s.__dict__.update(st.__dict__)
        s.fid = self.entry_fid
        return s

    def adapt_arg(self, v, t, st):
        v = self.coerce(v, t, st)
        if isinstance(v, VRef) and t[0] == 'list' and isinstance(st.heap[v.rid], HDict):
            return self.dict_keys_list(st.heap[v.rid], st)
        if isinstance(v, VTup) and t[0] == 'list':
            return self.iter_to_list(v, st)
        if isinstance(v, VTup) and t[0] == 'dict' and not v.items:
            return st.alloc(empty_hdict(t[1], t[2]))
        return v

    def havoc_modifies(self, c, st):
        for m in c.modifies:
            if m.startswith('G.'):
                g = m[2:]
                if g in st.ghost:
                    st.ghost[g] = self.havoc_val(st.ghost[g], 'G_' + g, st)
                continue
            e = ast.parse(m, mode='eval').body
            if isinstance(e, ast.Name):
                v = st.lookup(e.id)
                if isinstance(v, VOpt):
                    v = v.inner
                if isinstance(v, VRef) and not isinstance(st.heap[v.rid], HRec):
                    h0 = st.heap[v.rid]
                    if (isinstance(h0, HList) and h0.et is None) or (isinstance(h0, HDict) and h0.kt is None):
                        t = c.params.get(e.id)
                        if t is not None and t[0] == 'opt':
                            t = t[1]
                        self.coerce(v, t, st)
                    self.havoc_heap(v.rid, st)
                continue
            if isinstance(e, ast.Attribute):
                base = self.resolve_static(e.value, st)
                if isinstance(base, VRef) and isinstance(st.heap[base.rid], HRec):
                    h = st.heap[base.rid]
                    cur = h.fields.get(e.attr)
                    if cur is None:
                        raise ContractError("modifies %s: no such field" % m)
                    if isinstance(cur, VRef) and not isinstance(st.heap[cur.rid], HRec):
                        self.havoc_heap(cur.rid, st)
                    else:
                        f = dict(h.fields)
                        f[e.attr] = self.havoc_val(cur, e.attr, st)
                        p = dict(h.present)
                        if e.attr in p:
                            p[e.attr] = z3.Bool(fresh_name('present_' + e.attr))
                        st.heap[base.rid] = HRec(h.cls, f, p)
                    continue
            raise ContractError("modifies entry %r not understood" % m)

    # ------------------------------------------------------------------ spec language
    def ev_spec_val(self, text, st, extra=None):
        node = ast.parse(text.strip(), mode='eval').body
        old_spec, self.spec = self.spec, True
        caller = st.fid
        if extra:
            st.fid = st.new_frame(extra, parent=caller)
        try:
            return self.pure(node, st)
        finally:
            self.spec = old_spec
            st.fid = caller

    def ev_spec(self, text, st, extra=None):
        v = self.ev_spec_val(text, st, extra)
        return self.truth(v, st)

    def quant(self, node, st, mk):
        args = node.args
        if len(args) < 3 or len(args) % 2 == 0:
            raise ContractError("forall/exists(x, Sort, ..., body)")
        binds, zs = {}, []
        for a, s in zip(args[0:-1:2], args[1:-1:2]):
            sort = ast.unparse(s)
            if sort == 'Int':
                z = z3.Int(fresh_name(a.id))
                binds[a.id] = VInt(z)
            elif '[' in sort:            # a structured type, e.g. Opt[LayerRef] or Tuple[Str,Layer]
                t = parse_type(sort)
                z = z3.Const(fresh_name(a.id), sort_of(t))
                binds[a.id] = from_z3(z, t)
            else:
                z = z3.Const(fresh_name(a.id), usort(sort))
                binds[a.id] = VObj(sort, z)
            zs.append(z)
        caller = st.fid
        st.fid = st.new_frame(binds, parent=caller)
        npc = len(st.pc) - st.closed_defs
        self.in_quant += 1
        try:
            body = self.truth(self.pure(args[-1], st), st)
        finally:
            self.in_quant -= 1
            st.fid = caller
        if len(st.pc) - st.closed_defs != npc:
            raise ContractError("quantifier body needs definitional facts: %s" % ast.unparse(node)[:80])
        return VBool(mk(zs, body))

    def spec_forall(self, node, st):
        return self.quant(node, st, z3.ForAll)

    def spec_exists(self, node, st):
        return self.quant(node, st, z3.Exists)

    def spec_implies(self, node, st):
        a = self.truth(self.pure(node.args[0], st), st)
        if z3.is_false(z3.simplify(a)):
            # vacuous on this path; the consequent need not even be typable (``implies(r is not None, len(r) >= 1)`` for r = None)
            return VBool(z3.BoolVal(True))
        b = self.truth(self.pure(node.args[1], st), st)
        return VBool(z3.Implies(a, b))

    def spec_iff(self, node, st):
        a, b = [self.truth(self.pure(x, st), st) for x in node.args]
        return VBool(a == b)

    def spec_ite(self, node, st):
        c, a, b = [self.pure(x, st) for x in node.args]
        t = type_of_val(a, st)
        return from_z3(z3.If(self.truth(c, st), to_z3(a, t), to_z3(b, t)), t)

    def spec_keys(self, node, st):
        return self.pure(node.args[0], st)

    def in_snapshot(self, label, node, st):
        if label not in st.snaps:
            raise ContractError("no snapshot %r for %s" % (label, ast.unparse(node)))
        frames, heap, ghost = st.snaps[label]
        s = State.__new__(State)
        s.frames = dict(frames)
        for fid, fr in st.frames.items():
            if fid not in s.frames:
                s.frames[fid] = fr
        s.fid = st.fid
        s.heap = dict(st.heap)
        s.heap.update(heap)
        s.pc = st.pc
        s.ghost = dict(ghost)
        s.snaps = st.snaps
        s.path = st.path
        s.facts = st.facts
        s._next = st._next
        s.closed_defs = st.closed_defs
        v = self.pure(node.args[0], s)
        st.closed_defs = s.closed_defs
        for rid, h in s.heap.items():
            if rid not in heap and rid not in st.heap:
                st.heap[rid] = h
        if isinstance(v, VRef) and v.rid in heap and st.heap.get(v.rid) is not heap[v.rid]:
            # the old contents of a container that has changed since: give it its own reference
            nv = st.alloc(heap[v.rid])
            return nv
        return v

    def spec_old(self, node, st):
        return self.in_snapshot('old', node, st)

    def spec_pre(self, node, st):
        if len(node.args) > 1:
            label = 'pre' + node.args[1].value
        else:
            labels = [l for l in st.snaps if l.startswith('pre#')]
            if not labels:
                raise ContractError("pre() outside a loop")
            label = labels[-1]
        return self.in_snapshot(label, node, st)

    # ------------------------------------------------------------------ builtins
    def bi_len(self, args, kws, st, node, k):
        v = args[0]
        if isinstance(v, VOpt):
            if self.spec:
                return self.bi_len([v.inner], kws, st, node, k)
            return self.guard(st, z3.Not(v.isnone), 'TypeError', 'len-none', node,
                              lambda s: self.bi_len([v.inner], kws, s, node, k))
        if isinstance(v, VTup):
            return k(st, VInt(len(v.items)))
        if isinstance(v, VRef) and isinstance(st.heap[v.rid], HList):
            return k(st, VInt(st.heap[v.rid].n))
        if isinstance(v, VObj) and v.sort == 'Str':
            r = self.uf('str_len', [v], T_INT)
            if not self.in_quant:
                st.assume(r.z >= 0)
            return k(st, r)
        raise Unsupported("len of %r (line %s)" % (v, node.lineno))

    def bi_list(self, args, kws, st, node, k):
        if not args:
            return k(st, st.alloc(HList(None, None, z3.IntVal(0))))
        if isinstance(args[0], VOpt):
            return self.guard(st, z3.Not(args[0].isnone), 'TypeError', 'list-none', node,
                              lambda s: self.bi_list([args[0].inner] + list(args[1:]), kws, s, node, k))
        src = self.hlist(self.iter_to_list(args[0], st), st)
        return k(st, st.alloc(HList(src.et, src.arr, src.n)))

    bi_tuple = bi_list

    def bi_iter(self, args, kws, st, node, k):
        L = self.iter_to_list(args[0], st)
        return k(st, st.alloc(HRec('iterator', {'list': L, 'pos': VInt(0)})))

    def bi_next(self, args, kws, st, node, k):
        it = args[0]
        h = st.heap[it.rid]
        L = self.hlist(h.fields['list'], st)
        pos = h.fields['pos'].z

        def adv(s):
            s.heap[it.rid] = HRec('iterator', {'list': h.fields['list'], 'pos': VInt(pos + 1)})
            return k(s, from_z3(z3.Select(L.arr, pos), L.et))
        if L.et is None:
            return self.raise_(st, 'StopIteration')
        return self.guard(st, pos < L.n, 'StopIteration', 'next', node, adv)

    def bi_range(self, args, kws, st, node, k):
        ints = [to_z3(a, T_INT) for a in args]
        lo, hi = (z3.IntVal(0), ints[0]) if len(ints) == 1 else (ints[0], ints[1])
        if len(ints) == 3:
            stepc = self.const_int(args[2])
            if stepc == -1:              # range(a, b, -1) = a, a-1, ..., b+1
                i = z3.Int(fresh_name('ri'))
                n = z3.If(lo - hi > 0, lo - hi, 0)
                return k(st, st.alloc(HList(T_INT, z3.Lambda([i], lo - i), z3.simplify(n))))
            if stepc != 1:
                raise Unsupported("range with a step")
        i = z3.Int(fresh_name('ri'))
        n = z3.If(hi - lo > 0, hi - lo, 0)
        return k(st, st.alloc(HList(T_INT, z3.Lambda([i], lo + i), z3.simplify(n))))

    def bi_reversed(self, args, kws, st, node, k):
        h = self.hlist(self.iter_to_list(args[0], st), st)
        if h.et is None:
            return k(st, args[0])
        return k(st, st.alloc(self.reversed_hlist(h, st)))

    def bi_enumerate(self, args, kws, st, node, k):
        h = self.hlist(self.iter_to_list(args[0], st), st)
        if h.et is None:
            return k(st, args[0])
        t = ('tuple', (T_INT, h.et))
        i = z3.Int(fresh_name('ei'))
        mk = sort_of(t).constructor(0)
        return k(st, st.alloc(HList(t, z3.Lambda([i], mk(i, z3.Select(h.arr, i))), h.n)))

    def orderable(self, et):
        """values of this type can always be compared with < (no TypeError)"""
        if et[0] in ('int', 'bool', 'real'):
            return True
        if et[0] == 'obj':
            return et[1] == 'Str' or et[1] in getattr(self, 'ordered_sorts', ())
        if et[0] == 'tuple':
            return all(self.orderable(a) for a in et[1])
        return False

    def bi_zip(self, args, kws, st, node, k):
        if len(args) != 2:
            raise Unsupported("zip of %d iterables (line %s)" % (len(args), node.lineno))
        a, b = [self.hlist(self.iter_to_list(x, st), st) for x in args]
        if a.et is None or b.et is None:
            return k(st, st.alloc(HList(None, None, z3.IntVal(0))))
        t = ('tuple', (a.et, b.et))
        i = z3.Int(fresh_name('zi'))
        mk = sort_of(t).constructor(0)
        n = z3.If(a.n <= b.n, a.n, b.n)
        return k(st, st.alloc(HList(t, z3.Lambda([i], mk(z3.Select(a.arr, i), z3.Select(b.arr, i))), n)))

    def bi_sorted(self, args, kws, st, node, k):
        h = self.hlist(self.iter_to_list(args[0], st), st)
        if h.et is None:
            return k(st, st.alloc(HList(None, None, z3.IntVal(0))))
        R = self.permutation_of(h, st)
        if 'key' not in kws:
            rev = 'reverse' in kws
            self.assume_sorted(R, st, rev)
        elif not self.assume_sorted_by_key(R, kws, st, node):
            self.note('rule', (node.lineno, ast.unparse(node)[:60], 'sorted(key=...): a permutation; order by key not modelled'))
        return k(st, st.alloc(R))

    def assume_sorted_by_key(self, R, kws, st, node):
        """sorted(xs, key=f[, reverse=True]) where f is a repo function under a contract that declares a key model:
        the result is ordered by the abstract key  <model fn>(x)  (T4: sorted orders by key; f is a pure function,
        so its proved postconditions hold for the key of every element -- the contract's `key_axioms`)."""
        kf = kws['key']
        if isinstance(kf, VFunc) and kf.kind == 'lambda':
            return self.assume_sorted_by_lambda(R, kf, kws, st, node)
        if not (isinstance(kf, VFunc) and kf.kind == 'def' and kf.data['qual'] in self.contracts):
            return False
        c = self.contracts[kf.data['qual']]
        km = c.extra.get('key_model')
        if not km or R.et[0] != 'obj':
            return False
        fn, ksort = km
        self.need_order(ksort)
        keyf = z3.Function(fn, usort(R.et[1]), usort(ksort))
        lt = z3.Function('lt_' + ksort, usort(ksort), usort(ksort), z3.BoolSort())
        rev = False
        if 'reverse' in kws:
            rc = kws['reverse']
            if not (isinstance(rc, VBool) and (z3.is_true(rc.z) or z3.is_false(rc.z))):
                return False
            rev = z3.is_true(rc.z)
        i, j = z3.Int(fresh_name('i')), z3.Int(fresh_name('j'))
        a, b = keyf(z3.Select(R.arr, i)), keyf(z3.Select(R.arr, j))
        st.assume(z3.ForAll([i, j], z3.Implies(z3.And(0 <= i, i < j, j < R.n), z3.Not(lt(a, b)) if rev else z3.Not(lt(b, a)))),
                  qf=False)
        for text in c.extra.get('key_axioms', []):
            z = self.ev_spec(text, st)
            st.assume(z, qf=not self.has_quant(z))
        self.note('rule', (node.lineno, ast.unparse(node)[:60],
                           'sorted(key=%s): permutation ordered by the abstract key %s (contract of the key function)'
                           % (kf.data['qual'], fn)))
        return True

    def permutation_of(self, h, st):
        R = fresh_hlist(h.et, 'sorted', st)
        p = z3.Function(fresh_name('perm'), z3.IntSort(), z3.IntSort())
        q = z3.Function(fresh_name('perminv'), z3.IntSort(), z3.IntSort())
        i = z3.Int(fresh_name('i'))
        st.assume(R.n == h.n)
        st.assume(z3.ForAll([i], z3.Implies(z3.And(0 <= i, i < h.n),
                                            z3.And(0 <= p(i), p(i) < h.n, q(p(i)) == i,
                                                   z3.Select(R.arr, i) == z3.Select(h.arr, p(i))))), qf=False)
        st.assume(z3.ForAll([i], z3.Implies(z3.And(0 <= i, i < h.n),
                                            z3.And(0 <= q(i), q(i) < h.n, p(q(i)) == i,
                                                   z3.Select(h.arr, i) == z3.Select(R.arr, q(i))))), qf=False)
        return R

    def assume_sorted(self, R, st, rev=False):
        if R.et[0] == 'obj':
            self.need_order(R.et[1])
            lt = z3.Function('lt_' + R.et[1], usort(R.et[1]), usort(R.et[1]), z3.BoolSort())
            le = lambda a, b: z3.Not(lt(b, a))
        elif R.et[0] == 'int':
            le = lambda a, b: a <= b
        else:
            return
        i, j = z3.Int(fresh_name('i')), z3.Int(fresh_name('j'))
        a, b = z3.Select(R.arr, i), z3.Select(R.arr, j)
        st.assume(z3.ForAll([i, j], z3.Implies(z3.And(0 <= i, i < j, j < R.n), le(b, a) if rev else le(a, b))), qf=False)

    def assume_sorted_by_lambda(self, R, kf, kws, st, node):
        """sorted/sort with key=lambda x: <pure integer expression of x>: ordered by that expression (T4)"""
        lam = kf.data['node']
        if len(lam.args.args) != 1:
            return False
        rev = False
        if 'reverse' in kws:
            rc = kws['reverse']
            if not (isinstance(rc, VBool) and (z3.is_true(rc.z) or z3.is_false(rc.z))):
                return False
            rev = z3.is_true(rc.z)
        i, j = z3.Int(fresh_name('si')), z3.Int(fresh_name('sj'))
        elem = from_z3(z3.Select(R.arr, i), R.et)
        caller = st.fid
        st.fid = st.new_frame({lam.args.args[0].arg: elem}, parent=kf.data['fid'])
        npc = len(st.pc) - st.closed_defs
        old_spec, self.spec = self.spec, True
        self.in_quant += 1
        try:
            val = self.pure(lam.body, st)
        except Unsupported:
            return False
        finally:
            self.spec = old_spec
            self.in_quant -= 1
            st.fid = caller
        if len(st.pc) - st.closed_defs != npc or not isinstance(val, (VInt, VBool)):
            return False
        ki = to_z3(val, T_INT)
        kj = z3.substitute(ki, (i, j))
        st.assume(z3.ForAll([i, j], z3.Implies(z3.And(0 <= i, i < j, j < R.n), ki >= kj if rev else ki <= kj)), qf=False)
        self.note('rule', (node.lineno, ast.unparse(node)[:60], 'sort by key=lambda: permutation ordered by the integer key expression'))
        return True

    def bi_int(self, args, kws, st, node, k):
        v = args[0]
        if isinstance(v, VBool):
            return k(st, VInt(z3.If(v.z, 1, 0)))
        if isinstance(v, VInt):
            return k(st, v)
        raise Unsupported("int(%r): give a rule (line %s)" % (v, node.lineno))

    def bi_id(self, args, kws, st, node, k):
        v = args[0]
        if isinstance(v, VObj):
            return k(st, self.uf('id_of', [v], T_INT))
        if isinstance(v, VOpt) and isinstance(v.inner, VObj):      # id(None) is one fixed number, id(x) a function of x
            return k(st, VInt(z3.If(v.isnone, z3.Int('id_of_None'), self.uf('id_of', [v.inner], T_INT).z)))
        return k(st, fresh_val(T_INT, 'id', st))

    def bi_bool(self, args, kws, st, node, k):
        return k(st, VBool(self.truth(args[0], st)))

    def bi_str(self, args, kws, st, node, k):
        v = args[0]
        if isinstance(v, VOpt):           # str(None) == 'None'; otherwise the string of the value
            inner = self.uf('str_of', [v.inner], T_STR) if not (isinstance(v.inner, VObj) and v.inner.sort == 'Str') else v.inner
            return k(st, VObj('Str', z3.If(v.isnone, self.strlit('None').z, inner.z)))
        if isinstance(v, VObj) and v.sort == 'Str':
            return k(st, v)
        return k(st, self.uf('str_of', [v], T_STR))

    def bi_math_floor(self, args, kws, st, node, k):
        v = args[0]
        if isinstance(v, VInt):
            return k(st, v)
        return k(st, VInt(z3.ToInt(v.z)))

    def bi_hasattr(self, args, kws, st, node, k):
        o, name = args
        attr = self.lit_of(name)
        if attr is None:
            raise Unsupported("hasattr with a symbolic name (line %s)" % node.lineno)
        return k(st, VBool(self.has_attr(o, attr, st)))

    def has_attr(self, o, attr, st):
        if isinstance(o, VRef) and isinstance(st.heap[o.rid], HRec):
            h = st.heap[o.rid]
            if attr in h.present:
                return h.present[attr]
            return z3.BoolVal(attr in h.fields or self.method_qual(h.cls, attr) is not None)
        if isinstance(o, VObj):
            f = z3.Function('has_%s_%s' % (attr, o.sort), usort(o.sort), z3.BoolSort())
            return f(o.z)
        raise Unsupported("hasattr on %r" % (o,))

    def lit_of(self, v):
        if isinstance(v, VObj) and v.sort == 'Str':
            return self._lit_by_id.get(v.z.get_id())
        return None

    def bi_getattr(self, args, kws, st, node, k):
        o, name = args[0], self.lit_of(args[1])
        if name is not None and isinstance(o, VRef) and isinstance(st.heap[o.rid], HRec):
            h = st.heap[o.rid]                   # a record: declared fields exist (dynamic ones per their presence bit)
            if name in h.fields and name not in h.present:
                return k(st, h.fields[name])
            if name not in h.fields and len(args) == 3:
                return k(st, args[2])
            if name in h.fields and name in h.present:        # a dynamic attribute: there or not, per its presence bit
                has = h.present[name]
                if len(args) == 2:
                    return self.guard(st, has, 'AttributeError', 'getattr', node, lambda s: k(s, s.heap[o.rid].fields[name]))
                if isinstance(args[2], VNone) and not isinstance(h.fields[name], (VOpt, VRef)):
                    return k(st, VOpt(z3.Not(has), h.fields[name]))
                out = []
                for s2, yes in self.branch(st, has, 'getattr-%s@%s' % (name, node.lineno)):
                    out += k(s2, s2.heap[o.rid].fields[name] if yes else args[2])
                return out
        if name is None or not isinstance(o, VObj):
            raise Unsupported("getattr(%r, %r) (line %s)" % (o, args[1], node.lineno))
        t = self.objattrs.get((o.sort, name))
        if (t is None or callable(t)) and o.sort == 'Any' and len(args) == 3:
            # an attribute nobody declared, read with a default from an opaque object: the default, or an opaque value
            self.note('rule', (node.lineno, ast.unparse(node)[:60], 'getattr(opaque object, name, default): the default or an opaque value'))
            out = []
            for s2, yes in self.branch(st, z3.Bool(fresh_name('has_' + name)), 'getattr-%s@%s' % (name, node.lineno)):
                out += k(s2, fresh_val(T_ANY, name, s2) if yes else args[2])
            return out
        if t is None or callable(t):
            raise Unsupported("getattr: attribute %s.%s has no declared type" % (o.sort, name))
        t = parse_type(t)
        val = self.uf_attr(o, name, t)
        if len(args) == 2:
            return self.guard(st, self.has_attr(o, name, st), 'AttributeError', 'getattr', node, lambda s: k(s, val))
        d = args[2]
        has = self.has_attr(o, name, st)
        if t[0] == 'opt':
            raise Unsupported("getattr with a default on an optional attribute")
        if isinstance(d, VNone):
            return k(st, VOpt(z3.Not(has), val))
        return k(st, from_z3(z3.If(has, to_z3(val, t), to_z3(d, t)), t))

    def bi_isinstance(self, args, kws, st, node, k):
        o, c = args
        if isinstance(o, VOpt):        # isinstance(None, X) is False for every class named in the repo's tests
            return self.bi_isinstance([o.inner, c], kws, st, node,
                                      lambda s, v: k(s, VBool(z3.And(z3.Not(o.isnone), v.z))))
        names = [x.name for x in c.items] if isinstance(c, VTup) else [c.name]
        if isinstance(o, VExc):
            from .engine import exc_isinstance
            return k(st, VBool(any(exc_isinstance(o.cls, n.split('.')[-1]) for n in names)))
        if isinstance(o, VObj):
            zs = []
            for n in names:
                if n == 'str':
                    zs.append(z3.BoolVal(o.sort == 'Str'))
                    continue
                f = z3.Function('isinst_%s_%s' % (n.replace('.', '_'), o.sort), usort(o.sort), z3.BoolSort())
                zs.append(f(o.z))
            return k(st, VBool(z3.Or(*zs)))
        if isinstance(o, (VInt, VBool, VNone, VTup, VRef)):
            return k(st, VBool(False)) if names == ['str'] or names == ['bytes'] else self._unsup_isinst(o, names, node)
        return self._unsup_isinst(o, names, node)

    def _unsup_isinst(self, o, names, node):
        raise Unsupported("isinstance(%r, %s) (line %s)" % (o, names, node.lineno))

    def bi_sum(self, args, kws, st, node, k):
        h = self.hlist(self.iter_to_list(args[0], st), st)
        if h.et is None:
            return k(st, VInt(0))
        if h.et[0] not in ('int', 'bool'):
            raise Unsupported("sum of %r (line %s)" % (h.et, node.lineno))
        r = z3.Int(fresh_name('sum'))
        i = z3.Int(fresh_name('i'))
        term = z3.Select(h.arr, i) if h.et[0] == 'int' else z3.If(z3.Select(h.arr, i), 1, 0)
        # T4 (arithmetic): a sum of non-negative terms is non-negative; of no terms it is 0; of one term it is that term
        st.assume(z3.Implies(z3.ForAll([i], z3.Implies(z3.And(0 <= i, i < h.n), term >= 0)), r >= 0), qf=False)
        st.assume(z3.Implies(h.n == 0, r == 0))
        return k(st, VInt(r))

    def bi_min(self, args, kws, st, node, k):
        return self.minmax(args, st, node, k, True)

    def bi_max(self, args, kws, st, node, k):
        return self.minmax(args, st, node, k, False)

    def minmax(self, args, st, node, k, is_min):
        if len(args) != 2:
            raise Unsupported("min/max of an iterable (line %s)" % node.lineno)
        a, b = args
        if isinstance(a, VObj) and isinstance(b, VObj) and a.sort == b.sort:
            self.need_order(a.sort)
            lt = z3.Function('lt_' + a.sort, usort(a.sort), usort(a.sort), z3.BoolSort())
            c = lt(b.z, a.z)      # min: b if b < a else a
            return k(st, VObj(a.sort, z3.If(c, b.z, a.z) if is_min else z3.If(lt(a.z, b.z), b.z, a.z)))
        t = ('real',) if isinstance(a, VReal) or isinstance(b, VReal) else T_INT
        x, y = to_z3(a, t), to_z3(b, t)
        r = z3.If(x <= y, x, y) if is_min else z3.If(x >= y, x, y)
        return k(st, from_z3(r, t))

    def bi_any(self, args, kws, st, node, k):
        return self.anyall(args, st, k, True)

    def bi_all(self, args, kws, st, node, k):
        return self.anyall(args, st, k, False)

    def anyall(self, args, st, k, is_any):
        h = self.hlist(self.iter_to_list(args[0], st), st)
        if h.et is None:
            return k(st, VBool(not is_any))
        i = z3.Int(fresh_name('i'))
        t = self.truth(from_z3(z3.Select(h.arr, i), h.et), st)
        rng = z3.And(0 <= i, i < h.n)
        return k(st, VBool(z3.Exists([i], z3.And(rng, t)) if is_any else z3.ForAll([i], z3.Implies(rng, t))))

    def bi_set(self, args, kws, st, node, k):
        if not args:
            return k(st, st.alloc(HDict(None, None, None, None)))
        h = self.hlist(self.iter_to_list(args[0], st), st)
        if h.et is None:
            return k(st, st.alloc(HDict(None, None, None, None)))
        D = fresh_hdict(h.et, None, 'set')
        kk = z3.Const(fresh_name('k'), sort_of(h.et))
        i = z3.Int(fresh_name('i'))
        wit = z3.Function(fresh_name('sw'), sort_of(h.et), z3.IntSort())
        st.assume(z3.ForAll([i], z3.Implies(z3.And(0 <= i, i < h.n), z3.Select(D.mem, z3.Select(h.arr, i)))), qf=False)
        st.assume(z3.ForAll([kk], z3.Implies(z3.Select(D.mem, kk),
                                             z3.And(0 <= wit(kk), wit(kk) < h.n,
                                                    z3.Select(h.arr, wit(kk)) == kk))), qf=False)
        return k(st, st.alloc(D))

    def bi_dict_fromkeys(self, args, kws, st, node, k):
        h = self.hlist(self.iter_to_list(args[0], st), st)
        if h.et is None:
            return k(st, st.alloc(HDict(None, None, None, None)))
        v = args[1] if len(args) > 1 else NONE
        vt = None if isinstance(v, VNone) else type_of_val(v, st)
        D = fresh_hdict(h.et, vt, 'fromkeys')
        kk = z3.Const(fresh_name('k'), sort_of(h.et))
        i = z3.Int(fresh_name('i'))
        wit = z3.Function(fresh_name('fw'), sort_of(h.et), z3.IntSort())
        st.assume(z3.ForAll([i], z3.Implies(z3.And(0 <= i, i < h.n), z3.Select(D.mem, z3.Select(h.arr, i)))), qf=False)
        st.assume(z3.ForAll([kk], z3.Implies(z3.Select(D.mem, kk), z3.And(0 <= wit(kk), wit(kk) < h.n,
                                                                          z3.Select(h.arr, wit(kk)) == kk))), qf=False)
        if vt is not None:
            st.assume(z3.ForAll([kk], z3.Select(D.vals, kk) == to_z3(v, vt)), qf=False)
        return k(st, st.alloc(D))

    def bi_dict(self, args, kws, st, node, k):
        if args:
            v = args[0]
            if len(args) == 1 and not kws and isinstance(v, VRef) and isinstance(st.heap[v.rid], HDict):
                h = st.heap[v.rid]                       # dict(d): a shallow copy
                return k(st, st.alloc(HDict(h.kt, h.vt, h.mem, h.vals)))
            raise Unsupported("dict(x)")
        return k(st, st.alloc(HDict(None, None, None, None)))

    # ------------------------------------------------------------------ methods
    def call_method(self, recv, name, args, kws, st, node, k):
        if isinstance(recv, VObj) and (recv.sort, name) in self.objmethods:
            h = self.objmethods[(recv.sort, name)]
            self.note('rule', (node.lineno, ast.unparse(node)[:70], getattr(h, '__name__', 'method model')))
            return h(self, st, recv, node, args, kws, k)
        if isinstance(recv, VRef):
            h = st.heap[recv.rid]
            if isinstance(h, HList):
                return self.list_method(recv, h, name, args, kws, st, node, k)
            if isinstance(h, HDict):
                return self.dict_method(recv, h, name, args, kws, st, node, k)
        if isinstance(recv, VObj) and recv.sort == 'Str':
            if name in STR_BOOL_METHODS:
                return k(st, self.uf('str_' + name, [recv] + list(args), T_BOOL))
            if name in ('partition', 'rpartition') and len(args) == 1:
                return k(st, VTup([self.uf('str_%s_%d' % (name, n), [recv, args[0]], T_STR) for n in range(3)]))
            if name == 'join' and len(args) == 1 and isinstance(args[0], (VNone, VOpt)):
                # str.join(None): TypeError ("can only join an iterable")
                if isinstance(args[0], VNone):
                    return self.raise_(st, 'TypeError')
                return self.guard(st, z3.Not(args[0].isnone), 'TypeError', 'join', node,
                                  lambda s: k(s, fresh_val(T_STR, 'str_join', s)))
            if name == 'split' and len(args) == 1 and not kws and isinstance(args[0], VObj) and args[0].sort == 'Str':
                # str.split(sep): a list of strings with at least one element (the whole string when sep does not occur)
                L = st.alloc(fresh_hlist(T_STR, 'split', st))
                st.assume(st.heap[L.rid].n >= 1)
                self.note('rule', (node.lineno, ast.unparse(node)[:70], 'str.split(sep): a non-empty list of strings'))
                return k(st, L)
            if name in STR_STR_METHODS:
                flat = [a for a in args if not isinstance(a, VRef)]
                if len(flat) != len(args):
                    return k(st, fresh_val(T_STR, 'str_' + name, st))
                return k(st, self.uf('str_' + name, [recv] + flat, T_STR))
        raise Unsupported("method %s of %r (line %s): no rule or builtin model" % (name, recv, node.lineno))

    def list_method(self, recv, h, name, args, kws, st, node, k):
        if name == 'append':
            self.list_append(recv, args[0], st)
            return k(st, NONE)
        if name == 'extend':
            self.list_extend(recv, self.iter_to_list(args[0], st), st)
            return k(st, NONE)
        if name == 'reverse':
            if h.et is not None:
                st.heap[recv.rid] = self.reversed_hlist(h, st)
            return k(st, NONE)
        if name == 'sort':
            if h.et is not None and 'key' not in kws and not self.orderable(h.et):
                # comparing arbitrary objects may raise TypeError (e.g. a test object against a string)
                out = []
                for s2, two in self.branch(st, h.n >= 2, 'sort@%s' % node.lineno):
                    if two:
                        s3 = s2.copy()
                        s3.path.append('sort!TypeError@%s' % node.lineno)
                        out += self.raise_(s3, 'TypeError')
                    h2 = s2.heap[recv.rid]
                    s2.heap[recv.rid] = self.permutation_of(h2, s2)
                    out += k(s2, NONE)
                return out
            if h.et is not None:
                R = self.permutation_of(h, st)
                if 'key' not in kws:
                    self.assume_sorted(R, st, 'reverse' in kws)
                else:
                    self.assume_sorted_by_key(R, kws, st, node)
                st.heap[recv.rid] = R
            return k(st, NONE)
        if name == 'copy':
            return k(st, st.alloc(HList(h.et, h.arr, h.n)))
        if name == 'pop':
            if h.et is None:
                return self.raise_(st, 'IndexError')
            if not args:
                def pop_last(s):
                    s.heap[recv.rid] = HList(h.et, h.arr, h.n - 1)
                    return k(s, from_z3(z3.Select(h.arr, h.n - 1), h.et))
                return self.guard(st, h.n > 0, 'IndexError', 'pop', node, pop_last)
            iz = to_z3(args[0], T_INT)
            eff = z3.If(iz < 0, iz + h.n, iz)

            def pop_at(s):
                v = from_z3(z3.Select(h.arr, eff), h.et)
                self.list_delete_at(recv, eff, s)
                return k(s, v)
            return self.guard(st, z3.And(0 <= eff, eff < h.n), 'IndexError', 'pop', node, pop_at)
        if name == 'remove':
            if h.et is None:
                return self.raise_(st, 'ValueError')
            xz = to_z3(args[0], h.et)
            p = z3.Int(fresh_name('first'))
            i = z3.Int(fresh_name('i'))

            def rm(s):
                s.assume(z3.And(0 <= p, p < h.n, z3.Select(h.arr, p) == xz))
                s.assume(z3.ForAll([i], z3.Implies(z3.And(0 <= i, i < p), z3.Select(h.arr, i) != xz)), qf=False)
                self.list_delete_at(recv, p, s)
                return k(s, NONE)
            return self.guard(st, self.list_contains_z(h, xz), 'ValueError', 'remove', node, rm)
        if name == 'insert' and self.const_int(args[0]) == 0:
            if h.et is None:
                self.list_append(recv, args[1], st)
                return k(st, NONE)
            R = fresh_hlist(h.et, 'ins', st)
            i = z3.Int(fresh_name('i'))
            st.assume(R.n == h.n + 1)
            st.assume(z3.Select(R.arr, 0) == to_z3(args[1], h.et))
            st.assume(z3.ForAll([i], z3.Implies(z3.And(0 <= i, i < h.n),
                                                z3.Select(R.arr, i + 1) == z3.Select(h.arr, i))), qf=False)
            st.assume(z3.ForAll([i], z3.Implies(z3.And(1 <= i, i < R.n),
                                                z3.Select(R.arr, i) == z3.Select(h.arr, i - 1))), qf=False)
            st.heap[recv.rid] = R
            return k(st, NONE)
        raise Unsupported("list.%s (line %s)" % (name, node.lineno))

    def dict_method(self, recv, h, name, args, kws, st, node, k):
        if name in ('keys', '__iter__'):
            return k(st, recv)
        if h.kt is None:
            if name in ('get', 'pop') and len(args) == 2:
                return k(st, args[1])
            if name == 'get':
                return k(st, NONE)
            if name in ('items', 'values'):
                return k(st, st.alloc(HList(None, None, z3.IntVal(0))))
            if name == 'clear':
                return k(st, NONE)
            if name == 'add':
                kt = type_of_val(args[0], st)
                st.heap[recv.rid] = h = empty_hdict(kt, None)
            else:
                raise Unsupported("dict.%s on an untyped empty dict (line %s)" % (name, node.lineno))
        if name == 'add':
            pre = []
            if isinstance(args[0], VObj) and args[0].sort in getattr(self, 'unhashable_sorts', ()):
                # an object of a user-defined class is hashed when it is put into a set: __hash__ may be None (TypeError)
                s2 = st.copy()
                s2.path.append('hash!TypeError@%s' % node.lineno)
                pre = self.raise_(s2, 'TypeError')
            try:
                mismatch = not isinstance(args[0], VOpt) and h.kt[0] != 'opt' and type_of_val(args[0], st) != h.kt \
                    and not (h.kt[0] == 'int' and isinstance(args[0], (VInt, VBool)))
            except TypeError:
                mismatch = False
            if mismatch:
                # an element of another type than the set is declared to hold: membership of the declared type is unchanged
                self.note('rule', (node.lineno, ast.unparse(node)[:60], 'set.add of a value of another type: no effect on the modelled membership'))
                return pre + k(st, NONE)
            st.heap[recv.rid] = HDict(h.kt, h.vt, z3.Store(h.mem, to_z3(args[0], h.kt), z3.BoolVal(True)), h.vals)
            return pre + k(st, NONE)
        if name == 'remove' and h.vt is None:          # set.remove: KeyError when absent
            kz = to_z3(args[0], h.kt)

            def rm(s):
                s.heap[recv.rid] = HDict(h.kt, h.vt, z3.Store(h.mem, kz, z3.BoolVal(False)), h.vals)
                return k(s, NONE)
            return self.guard(st, z3.Select(h.mem, kz), 'KeyError', 'set-remove', node, rm)
        if name == 'discard':
            st.heap[recv.rid] = HDict(h.kt, h.vt, z3.Store(h.mem, to_z3(args[0], h.kt), z3.BoolVal(False)), h.vals)
            return k(st, NONE)
        if name in ('get', 'pop'):
            key = self.coerce(args[0], h.kt, st)
            if isinstance(key, VNone) and h.kt[0] != 'opt':
                present = z3.BoolVal(False)
                kz = None
            else:
                kz = to_z3(key, h.kt)
                present = z3.Select(h.mem, kz)
            out = []
            for s2, has in self.branch(st, present, '%s@%s' % (name, node.lineno)):
                if has:
                    v = from_z3(z3.Select(h.vals, kz), h.vt) if h.vals is not None else VInt(1)
                    if name == 'pop':
                        s2.heap[recv.rid] = HDict(h.kt, h.vt, z3.Store(h.mem, kz, z3.BoolVal(False)), h.vals)
                    out += k(s2, v)
                elif len(args) == 2:
                    out += k(s2, args[1])
                elif name == 'get':
                    out += k(s2, NONE)
                else:
                    out += self.raise_(s2, 'KeyError')
            return out
        if name == 'items':
            L = self.hlist(self.dict_keys_list(h, st), st)
            t = ('tuple', (h.kt, h.vt))
            i = z3.Int(fresh_name('ii'))
            mk = sort_of(t).constructor(0)
            key = z3.Select(L.arr, i)
            return k(st, st.alloc(HList(t, z3.Lambda([i], mk(key, z3.Select(h.vals, key))), L.n)))
        if name == 'values':
            L = self.hlist(self.dict_keys_list(h, st), st)
            i = z3.Int(fresh_name('ii'))
            return k(st, st.alloc(HList(h.vt, z3.Lambda([i], z3.Select(h.vals, z3.Select(L.arr, i))), L.n)))
        if name == 'update':
            o = st.heap[args[0].rid]
            if not isinstance(o, HDict):
                raise Unsupported("dict.update with %r" % (args[0],))
            if o.kt is None:
                return k(st, NONE)
            D = fresh_hdict(h.kt, h.vt, 'upd')
            kk = z3.Const(fresh_name('k'), sort_of(h.kt))
            st.assume(z3.ForAll([kk], z3.Select(D.mem, kk) == z3.Or(z3.Select(h.mem, kk), z3.Select(o.mem, kk))), qf=False)
            if h.vals is not None:
                st.assume(z3.ForAll([kk], z3.Select(D.vals, kk) == z3.If(z3.Select(o.mem, kk), z3.Select(o.vals, kk),
                                                                         z3.Select(h.vals, kk))), qf=False)
            st.heap[recv.rid] = D
            return k(st, NONE)
        if name == 'copy':
            return k(st, st.alloc(HDict(h.kt, h.vt, h.mem, h.vals)))
        if name == 'clear':
            st.heap[recv.rid] = empty_hdict(h.kt, h.vt)
            return k(st, NONE)
        raise Unsupported("dict.%s (line %s)" % (name, node.lineno))
