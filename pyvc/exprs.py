"""Expression evaluation (continuation passing: ``ev(node, st, k)`` returns statement outcomes)."""
import ast
import z3

from .vals import (VInt, VBool, VReal, VNone, NONE, VObj, VTup, VOpt, VRef, VFunc, VClass, VExc, VUnb,
                   HList, HDict, HRec, sort_of, usort, to_z3, from_z3, fresh_name, type_of_val,
                   T_INT, T_BOOL, T_STR, T_ANY, type_name)
from .state import Unsupported, ContractError, fresh_val, fresh_hlist, fresh_hdict, empty_hlist, empty_hdict
from .engine import EXC_PARENT


class VGhost:
    """the spec-level object ``G`` (ghost state)."""


GHOST = VGhost()


def has_call(node):
    return any(isinstance(n, (ast.Call, ast.Yield, ast.YieldFrom, ast.Await, ast.NamedExpr)) for n in ast.walk(node))


class ExprMixin:
    spec = False
    in_quant = 0

    # ------------------------------------------------------------------ dispatch
    def ev(self, node, st, k):
        m = getattr(self, 'ev_' + type(node).__name__, None)
        if m is None:
            raise Unsupported("expression %s at line %s" % (type(node).__name__, getattr(node, 'lineno', '?')))
        self.note('node', type(node).__name__)
        if self.cur is not None and self.cur[0].expr_rules and not isinstance(node, (ast.Name, ast.Constant)):
            r = self.cur[0].expr_rules.get(ast.unparse(node))
            if r is not None:
                self.note('rule', (getattr(node, 'lineno', 0), ast.unparse(node)[:70], 'expression rule: ' + (getattr(r, '__name__', None) or str(r))))
                from .vals import parse_type
                out = []
                if callable(r):                    # handler(E, st, node, args, kws, k): an assumed contract written in Python
                    return r(self, st, node, [], {}, k)
                if isinstance(r, dict):            # {'type': T, 'raises': [...]}: any value of T, or one of the exceptions
                    for exc in r.get('raises', []):
                        s2 = st.copy()
                        s2.path.append('expr!%s@%s' % (exc, getattr(node, 'lineno', 0)))
                        out += self.raise_(s2, exc)
                    t = r['type']
                else:
                    kind, _, t = r.partition(':')
                return out + k(st, fresh_val(parse_type(t), 'expr', st))
        return m(node, st, k)

    def ev_list(self, nodes, st, k, acc=()):
        if not nodes:
            return k(st, list(acc))
        return self.ev(nodes[0], st, lambda s, v: self.ev_list(nodes[1:], s, k, acc + (v,)))

    def raise_(self, st, cls, *args):
        return [(st, 'raise', VExc(cls, args))]

    def guard(self, st, safe, exc, what, node, k_safe):
        """partial operation: continue with k_safe(st) where `safe` holds; fork `exc` where it may not."""
        if self.spec:
            return k_safe(st)
        safe = z3.simplify(safe)
        if z3.is_true(safe):
            return k_safe(st)
        line = getattr(node, 'lineno', None)
        if self.check_now(st, 'safe', '%s@%s' % (what, ast.unparse(node)[:50]), 'no %s: %s' % (exc, ast.unparse(node)[:80]),
                          safe, line):
            return k_safe(st)
        out = []
        for s2, ok in self.branch(st, safe, '%s@%s' % (exc, line)):
            if ok:
                out += k_safe(s2)
            else:
                out += self.raise_(s2, exc)
        return out

    # ------------------------------------------------------------------ atoms
    def ev_Constant(self, node, st, k):
        v = node.value
        if isinstance(v, bool):
            return k(st, VBool(v))
        if isinstance(v, int):
            return k(st, VInt(v))
        if isinstance(v, float):
            return k(st, VReal(v))
        if v is None:
            return k(st, NONE)
        if isinstance(v, (str, bytes)):
            return k(st, self.strlit(v))
        raise Unsupported("constant %r" % (v,))

    def ev_Name(self, node, st, k):
        v = self.load_name(node.id, st)
        if v is None:
            if self.spec:
                raise ContractError("unknown name %r in a specification" % node.id)
            return self.raise_(st, 'NameError')
        if v.__class__.__name__ == 'VPoison':
            raise Unsupported("read of the loop-scratch variable %s before it is assigned (line %s)" % (node.id, node.lineno))
        if isinstance(v, VUnb):
            return self.guard(st, v.bound, 'NameError', 'unbound', node, lambda s: k(s, v.val))
        return k(st, v)

    def load_name(self, name, st):
        v = st.lookup(name)
        if v is not None:
            return v
        if (self.spec or getattr(self, 'in_ghost', False)) and name == 'G':
            return GHOST
        mod = self.cur[1].split('.')[0] if self.cur else None
        for key in ('%s.%s' % (mod, name), name):
            if key in self.globals:
                g = self.globals[key]
                return g(self, st) if callable(g) else self.const_val(g, st)
        if name in EXC_PARENT or name in ('object',):
            return VClass(name)
        if mod is not None:
            tree, _, _ = self.module(mod)
            for ch in tree.body:
                if isinstance(ch, ast.FunctionDef) and ch.name == name:
                    return VFunc('def', qual='%s.%s' % (mod, name))
                if isinstance(ch, ast.ClassDef) and ch.name == name:
                    return VClass('%s.%s' % (mod, name))
                if isinstance(ch, ast.Assign) and len(ch.targets) == 1 and isinstance(ch.targets[0], ast.Name) \
                        and ch.targets[0].id == name:
                    try:
                        return self.const_val(ast.literal_eval(ch.value), st)
                    except Exception:
                        # the name IS bound at module level, but to something the engine does not model (a dict / list
                        # used as module state, a computed value): a checker limit, never a NameError of the code
                        raise Unsupported("module-level name %s.%s = %s is not modelled (line %s)"
                                          % (mod, name, ast.unparse(ch.value)[:40], ch.lineno))
                if isinstance(ch, (ast.Import, ast.ImportFrom)):
                    for a in ch.names:
                        if (a.asname or a.name.split('.')[0]) == name:
                            return VClass(name)
        import builtins
        if hasattr(builtins, name) or name in self.known_modules:
            return VClass(name)     # builtin: resolved (or rejected) at the call
        return None

    def const_val(self, c, st):
        if isinstance(c, bool):
            return VBool(c)
        if isinstance(c, int):
            return VInt(c)
        if isinstance(c, float):
            return VReal(c)
        if c is None:
            return NONE
        if isinstance(c, (str, bytes)):
            return self.strlit(c)
        if isinstance(c, tuple):
            return VTup([self.const_val(x, st) for x in c])
        if isinstance(c, (list, set, frozenset)):
            items = [self.const_val(x, st) for x in c]
            return self.new_list(st, type_of_val(items[0], st) if items else T_ANY, items)
        raise Unsupported("module constant %r" % (c,))

    # ------------------------------------------------------------------ attributes
    def ev_Attribute(self, node, st, k):
        return self.ev(node.value, st, lambda s, v: self.load_attr(v, node.attr, s, node, k))

    def load_attr(self, v, attr, st, node, k):
        if v is GHOST:
            if attr not in st.ghost:
                raise ContractError("ghost G.%s is not declared" % attr)
            return k(st, st.ghost[attr])
        if isinstance(v, VOpt):
            return self.guard(st, z3.Not(v.isnone), 'AttributeError', 'none-attr', node,
                              lambda s: self.load_attr(v.inner, attr, s, node, k))
        if isinstance(v, VRef):
            h = st.heap[v.rid]
            if isinstance(h, HRec):
                if attr in h.fields:
                    if attr in h.present:
                        return self.guard(st, h.present[attr], 'AttributeError', 'attr', node,
                                          lambda s: k(s, s.heap[v.rid].fields[attr]))
                    return k(st, h.fields[attr])
                qual = self.method_qual(h.cls, attr)
                if qual is not None:
                    return k(st, VFunc('bound', recv=v, qual=qual, name=attr))
                return k(st, VFunc('method', recv=v, name=attr))
            return k(st, VFunc('method', recv=v, name=attr))
        if isinstance(v, VObj):
            h = self.objattrs.get((v.sort, attr))
            if h is not None:
                return k(st, h(self, st, v) if callable(h) else self.uf_attr(v, attr, h))
            return k(st, VFunc('method', recv=v, name=attr))
        if isinstance(v, VClass):
            name = v.name + '.' + attr
            if name in self.globals:
                g = self.globals[name]
                return k(st, g(self, st) if callable(g) else self.const_val(g, st))
            return k(st, VClass(name))
        if isinstance(v, (VTup, VInt, VBool, VExc, VFunc)):
            return k(st, VFunc('method', recv=v, name=attr))
        raise Unsupported("attribute %s of %r (line %s)" % (attr, v, getattr(node, 'lineno', '?')))

    def uf_attr(self, v, attr, t):
        t = t if isinstance(t, tuple) else __import__('pyvc.vals', fromlist=['parse_type']).parse_type(t)
        f = z3.Function('attr_%s_%s' % (v.sort, attr), usort(v.sort), sort_of(t))
        return from_z3(f(v.z), t)

    def method_qual(self, cls, name):
        """record class 'runner.TestResult' -> qualified name of a method defined in /repo, if any."""
        if '.' not in cls:
            return None
        try:
            self.find_def(cls + '.' + name)
            return cls + '.' + name
        except ContractError:
            return None

    # ------------------------------------------------------------------ subscripts
    def ev_Subscript(self, node, st, k):
        def with_val(s, v):
            if isinstance(node.slice, ast.Slice):
                parts = [node.slice.lower, node.slice.upper, node.slice.step]
                present = [p for p in parts if p is not None]
                return self.ev_list(present, s, lambda s2, vs: self.do_slice(v, parts, vs, s2, node, k))
            return self.ev(node.slice, s, lambda s2, i: self.do_index(v, i, s2, node, k))
        return self.ev(node.value, st, with_val)

    def do_index(self, v, i, st, node, k):
        if isinstance(v, VOpt):
            if self.spec:
                return self.do_index(v.inner, i, st, node, k)
            return self.guard(st, z3.Not(v.isnone), 'TypeError', 'none-subscript', node,
                              lambda s: self.do_index(v.inner, i, s, node, k))
        if isinstance(v, VTup):
            c = self.const_int(i)
            if c is None:
                raise Unsupported("symbolic index into a tuple (line %s)" % node.lineno)
            if not -len(v.items) <= c < len(v.items):
                return self.raise_(st, 'IndexError')
            return k(st, v.items[c])
        if isinstance(v, VRef):
            h = st.heap[v.rid]
            if isinstance(h, HList):
                if h.et is None:                    # the untyped empty list: nothing to index
                    if self.spec:
                        return k(st, VObj('Any', z3.Const('undefined_item', usort('Any'))))
                    return self.raise_(st, 'IndexError')
                if not isinstance(i, (VInt, VBool)):
                    raise Unsupported("list index %r" % (i,))
                iz = to_z3(i, T_INT)
                c = self.const_int(i)
                eff = iz if (c is not None and c >= 0) else (iz + h.n if c is not None else z3.If(iz < 0, iz + h.n, iz))
                return self.guard(st, z3.And(0 <= eff, eff < h.n), 'IndexError', 'index', node,
                                  lambda s: k(s, from_z3(z3.Select(h.arr, eff), h.et)))
            if isinstance(h, HDict):
                kz = to_z3(self.coerce(i, h.kt, st), h.kt)

                def get(s):
                    if h.vals is None:
                        return k(s, VInt(1))
                    return k(s, from_z3(z3.Select(h.vals, kz), h.vt))
                return self.guard(st, z3.Select(h.mem, kz), 'KeyError', 'key', node, get)
        if isinstance(v, VObj) and v.sort == 'Str':
            return k(st, self.uf('str_index', [v, i], T_STR))
        if isinstance(v, VObj) and v.sort == 'Any' and not self.spec:
            # an opaque object: the item is an opaque object -- or the lookup raises (nothing is known about the object)
            self.note('rule', (node.lineno, ast.unparse(node)[:60], 'subscript of an opaque object: an opaque item, or IndexError / KeyError / TypeError'))
            out = []
            for exc in ('IndexError', 'KeyError', 'TypeError'):
                s2 = st.copy()
                s2.path.append('%s@%s' % (exc, node.lineno))
                out += self.raise_(s2, exc)
            return out + k(st, fresh_val(T_ANY, 'item', st))
        raise Unsupported("subscript of %r (line %s)" % (v, node.lineno))

    def const_int(self, v):
        if isinstance(v, VInt):
            z = z3.simplify(v.z)
            if z3.is_int_value(z):
                return z.as_long()
        return None

    def do_slice(self, v, parts, vs, st, node, k):
        vals = []
        it = iter(vs)
        for p in parts:
            vals.append(next(it) if p is not None else None)
        lo, hi, step = vals
        stepc = 1 if step is None else self.const_int(step)
        if isinstance(v, VOpt):
            if self.spec:
                return self.do_slice(v.inner, parts, vs, st, node, k)
            return self.guard(st, z3.Not(v.isnone), 'TypeError', 'none-slice', node,
                              lambda s: self.do_slice(v.inner, parts, vs, s, node, k))
        if isinstance(v, VTup):
            loc = None if lo is None else self.const_int(lo)
            hic = None if hi is None else self.const_int(hi)
            if (lo is not None and loc is None) or (hi is not None and hic is None) or stepc is None:
                raise Unsupported("symbolic slice of a tuple")
            return k(st, VTup(v.items[slice(loc, hic, stepc)]))
        if isinstance(v, VObj) and v.sort == 'Str':
            name = 'str_slice'
            args = [v]
            for b in (lo, hi, step):
                c = None if b is None else self.const_int(b)
                if b is None:
                    name += '_N'
                elif c is not None:
                    name += '_c%s' % str(c).replace('-', 'm')
                else:
                    name += '_v'
                    args.append(b)
            return k(st, self.uf(name, args, T_STR))
        if isinstance(v, VRef) and isinstance(st.heap[v.rid], HList):
            h = st.heap[v.rid]
            if h.et is None:
                return k(st, st.alloc(HList(None, None, z3.IntVal(0))))
            n = h.n

            def norm(b, dflt):
                if b is None:
                    return dflt
                z = to_z3(b, T_INT)
                z = z3.If(z < 0, z + n, z)
                return z3.If(z < 0, 0, z3.If(z > n, n, z))
            i = z3.Int(fresh_name('i'))
            if stepc == 1:
                l2, h2 = norm(lo, z3.IntVal(0)), norm(hi, n)
                R = fresh_hlist(h.et, 'slice', st)
                st.assume(R.n == z3.If(h2 - l2 > 0, h2 - l2, 0))
                st.assume(z3.ForAll([i], z3.Implies(z3.And(0 <= i, i < R.n),
                                                    z3.Select(R.arr, i) == z3.Select(h.arr, l2 + i))), qf=False)
                st.assume(z3.ForAll([i], z3.Implies(z3.And(l2 <= i, i < l2 + R.n),
                                                    z3.Select(h.arr, i) == z3.Select(R.arr, i - l2))), qf=False)
                return k(st, st.alloc(R))
            if stepc == -1 and hi is None and (lo is None or self.const_int(lo) == -1):
                return k(st, st.alloc(self.reversed_hlist(h, st)))
            raise Unsupported("slice with step %r (line %s)" % (stepc, node.lineno))
        raise Unsupported("slice of %r (line %s)" % (v, node.lineno))

    def reversed_hlist(self, h, st):
        R = fresh_hlist(h.et, 'rev', st)
        i = z3.Int(fresh_name('i'))
        st.assume(R.n == h.n)
        st.assume(z3.ForAll([i], z3.Implies(z3.And(0 <= i, i < h.n),
                                            z3.Select(R.arr, i) == z3.Select(h.arr, h.n - 1 - i))), qf=False)
        st.assume(z3.ForAll([i], z3.Implies(z3.And(0 <= i, i < h.n),
                                            z3.Select(h.arr, i) == z3.Select(R.arr, h.n - 1 - i))), qf=False)
        return R

    def uf(self, name, args, rt):
        """application of an uninterpreted (pure, total) function named `name` to embeddable args."""
        zs, sorts = [], []
        for a in args:
            t = type_of_val(a, None) if not isinstance(a, VRef) else None
            if t is None:
                raise Unsupported("container argument to uninterpreted function %s" % name)
            zs.append(to_z3(a, t))
            sorts.append(sort_of(t))
        name = name + '__' + '_'.join(str(s) for s in sorts)
        f = z3.Function(name, *(sorts + [sort_of(rt)]))
        return from_z3(f(*zs), rt)

    def coerce(self, v, t, st):
        """adapt v to declared type t where python allows it silently (bool->int, untyped empty containers)."""
        if t is None:
            return v
        if t[0] == 'opt':
            # a variable declared Optional holds a VOpt on every path (so that a loop head covers None and not-None)
            if isinstance(v, VOpt):
                return v
            if isinstance(v, VNone):
                return VOpt(z3.BoolVal(True), fresh_val(t[1], 'none_default', st))
            if isinstance(v, (VInt, VBool, VReal, VObj, VTup)):
                return VOpt(z3.BoolVal(False), self.coerce(v, t[1], st))
            return v
        if isinstance(v, VRef):
            h = st.heap[v.rid]
            if isinstance(h, HList) and h.et is None and t[0] == 'list':
                e = empty_hlist(t[1])
                st.heap[v.rid] = HList(t[1], e.arr, h.n)
            if isinstance(h, HDict) and h.kt is None and t[0] == 'dict':
                st.heap[v.rid] = empty_hdict(t[1], t[2])
        return v

    # ------------------------------------------------------------------ operators
    def ev_UnaryOp(self, node, st, k):
        def fin(s, v):
            if isinstance(node.op, ast.Not):
                return k(s, VBool(z3.Not(self.truth(v, s))))
            if isinstance(node.op, ast.USub):
                if isinstance(v, VInt):
                    return k(s, VInt(-v.z))
                if isinstance(v, VReal):
                    return k(s, VReal(-v.z))
            raise Unsupported("unary %s on %r" % (type(node.op).__name__, v))
        return self.ev(node.operand, st, fin)

    def ev_BoolOp(self, node, st, k):
        is_and = isinstance(node.op, ast.And)
        if self.spec or not any(has_call(v) for v in node.values[1:]):
            def fin(s, vs):
                if all(isinstance(v, VBool) for v in vs) or self.spec:
                    ts = [self.truth(v, s) for v in vs]
                    return k(s, VBool(z3.And(*ts) if is_and else z3.Or(*ts)))
                return self.boolop_fork(vs, is_and, s, k)
            # operands without calls cannot fork or raise except through guards; evaluate all, then combine.
            # (a guard inside a later operand is conservative: it is checked even when short-circuited)
            if all(not self.may_guard(v) for v in node.values[1:]) or self.spec:
                return self.ev_list(node.values, st, fin)
        return self.boolop_seq(node.values, is_and, st, k)

    def may_guard(self, node):
        return any(isinstance(n, (ast.Subscript, ast.Attribute, ast.BinOp)) for n in ast.walk(node))

    def boolop_fork(self, vs, is_and, st, k):
        v = vs[0]
        if len(vs) == 1:
            return k(st, v)
        out = []
        for s2, taken in self.branch(st, self.truth(v, st), 'bool'):
            if taken == is_and:
                out += self.boolop_fork(vs[1:], is_and, s2, k)
            else:
                out += k(s2, v.inner if (taken and isinstance(v, VOpt)) else v)     # a truthy Optional is its value
        return out

    def boolop_seq(self, nodes, is_and, st, k):
        def after(s, v):
            if len(nodes) == 1:
                return k(s, v)
            out = []
            for s2, taken in self.branch(s, self.truth(v, s), 'bool@%s' % nodes[0].lineno):
                if taken and is_and and isinstance(nodes[0], ast.Name) and isinstance(v, VOpt) and not self.spec:
                    fid = s2.fid                      # ``x and f(x)``: on this path x is not None -- it is its value
                    while fid is not None and nodes[0].id not in s2.frames[fid]:
                        fid = s2.frames[fid].get('__parent__')
                    if fid is not None:
                        s2.frames[fid][nodes[0].id] = v.inner
                if taken == is_and:
                    out += self.boolop_seq(nodes[1:], is_and, s2, k)
                else:
                    out += k(s2, v.inner if (taken and isinstance(v, VOpt)) else v)
            return out
        return self.ev(nodes[0], st, after)

    def ev_Compare(self, node, st, k):
        def fin(s, vs):
            conj = []
            for op, a, b in zip(node.ops, vs, vs[1:]):
                conj.append(self.compare(op, a, b, s, node))
            return k(s, VBool(z3.And(*conj) if len(conj) > 1 else conj[0]))
        return self.ev_list([node.left] + node.comparators, st, fin)

    def compare(self, op, a, b, st, node):
        if isinstance(op, (ast.Eq, ast.Is)):
            return self.eq(a, b, st)
        if isinstance(op, (ast.NotEq, ast.IsNot)):
            return z3.Not(self.eq(a, b, st))
        if isinstance(op, (ast.In, ast.NotIn)):
            r = self.contains(b, a, st, node)
            return r if isinstance(op, ast.In) else z3.Not(r)
        if isinstance(a, VOpt):
            a = a.inner
        if isinstance(b, VOpt):
            b = b.inner
        if isinstance(a, (VInt, VBool, VReal)) and isinstance(b, (VInt, VBool, VReal)):
            t = ('real',) if isinstance(a, VReal) or isinstance(b, VReal) else T_INT
            x, y = to_z3(a, t), to_z3(b, t)
            return {ast.Lt: x < y, ast.LtE: x <= y, ast.Gt: x > y, ast.GtE: x >= y}[type(op)]
        if isinstance(a, VObj) and isinstance(b, VObj) and a.sort == b.sort:
            lt = z3.Function('lt_' + a.sort, usort(a.sort), usort(a.sort), z3.BoolSort())
            self.need_order(a.sort)
            return {ast.Lt: lt(a.z, b.z), ast.LtE: z3.Not(lt(b.z, a.z)),
                    ast.Gt: lt(b.z, a.z), ast.GtE: z3.Not(lt(a.z, b.z))}[type(op)]
        raise Unsupported("comparison %s of %r and %r" % (type(op).__name__, a, b))

    def need_order(self, sort):
        key = ('order', sort)
        if key in self.added_axioms:
            return
        self.added_axioms.add(key)
        S = usort(sort)
        lt = z3.Function('lt_' + sort, S, S, z3.BoolSort())
        x, y, w = z3.Consts('x y w', S)
        self.axioms += [z3.ForAll([x], z3.Not(lt(x, x))),
                        z3.ForAll([x, y, w], z3.Implies(z3.And(lt(x, y), lt(y, w)), lt(x, w))),
                        z3.ForAll([x, y], z3.Or(lt(x, y), x == y, lt(y, x)))]
        self.assumptions.append("values of sort %s are totally ordered by < (strict total order axioms)" % sort)

    def contains(self, cont, x, st, node):
        if isinstance(cont, VOpt):
            cont = cont.inner
        if isinstance(cont, VTup):
            return z3.Or(*[self.eq(x, it, st) for it in cont.items]) if cont.items else z3.BoolVal(False)
        if isinstance(cont, VRef):
            h = st.heap[cont.rid]
            if isinstance(h, HList):
                if h.et is None:
                    return z3.BoolVal(False)
                if isinstance(x, VOpt) or type_of_val(x, st) != h.et:
                    if h.et[0] == 'opt':
                        return self.list_contains_z(h, to_z3(x, h.et))
                    if isinstance(x, VOpt):
                        return z3.And(z3.Not(x.isnone), self.list_contains(h, x.inner, st))
                    return z3.BoolVal(False)
                return self.list_contains(h, x, st)
            if isinstance(h, HDict):
                if h.kt is None:
                    return z3.BoolVal(False)
                if isinstance(x, VOpt) and h.kt[0] != 'opt':
                    try:
                        if type_of_val(x.inner, st) != h.kt and not (h.kt[0] == 'int' and isinstance(x.inner, (VInt, VBool))):
                            return z3.BoolVal(False)        # a value of another type than the container holds: not a member
                    except TypeError:
                        pass
                    return z3.And(z3.Not(x.isnone), z3.Select(h.mem, to_z3(x.inner, h.kt)))
                if isinstance(x, VNone) and h.kt[0] != 'opt':
                    return z3.BoolVal(False)
                try:
                    if not isinstance(x, VOpt) and h.kt[0] != 'opt' and type_of_val(x, st) != h.kt \
                            and not (h.kt[0] == 'int' and isinstance(x, (VInt, VBool))):
                        return z3.BoolVal(False)
                except TypeError:
                    pass
                return z3.Select(h.mem, to_z3(x, h.kt))
        if isinstance(cont, VObj) and cont.sort in getattr(self, 'member_sorts', {}):
            return self.member_sorts[cont.sort](self, st, cont, x)
        if isinstance(cont, VObj) and cont.sort == 'Str' and isinstance(x, VObj):
            return self.uf('str_contains', [cont, x], T_BOOL).z
        raise Unsupported("membership in %r (line %s)" % (cont, getattr(node, 'lineno', '?')))

    def list_contains_z(self, h, z):
        i = z3.Int(fresh_name('i'))
        return z3.Exists([i], z3.And(0 <= i, i < h.n, z3.Select(h.arr, i) == z))

    def ev_BinOp(self, node, st, k):
        def fin(s, vs):
            a, b = vs
            op = node.op
            if isinstance(a, VOpt):
                a = a.inner
            if isinstance(b, VOpt):
                b = b.inner
            num = (VInt, VBool, VReal)
            if isinstance(a, num) and isinstance(b, num):
                if isinstance(a, VReal) or isinstance(b, VReal) or isinstance(op, ast.Div):
                    x, y = to_z3(a, ('real',)), to_z3(b, ('real',))
                    if isinstance(op, ast.Add):
                        return k(s, VReal(x + y))
                    if isinstance(op, ast.Sub):
                        return k(s, VReal(x - y))
                    if isinstance(op, ast.Mult):
                        return k(s, VReal(x * y))
                    raise Unsupported("float op %s" % type(op).__name__)
                x, y = to_z3(a, T_INT), to_z3(b, T_INT)
                if isinstance(op, ast.Add):
                    return k(s, VInt(x + y))
                if isinstance(op, ast.Sub):
                    return k(s, VInt(x - y))
                if isinstance(op, ast.Mult):
                    return k(s, VInt(x * y))
                if isinstance(op, (ast.BitOr, ast.BitAnd, ast.BitXor)):
                    return k(s, self.uf('int_' + type(op).__name__, [VInt(x), VInt(y)], T_INT))
                raise Unsupported("int op %s" % type(op).__name__)
            if isinstance(a, VObj) and a.sort == 'Str':
                if isinstance(op, ast.Mod):
                    self.note('rule', (node.lineno, ast.unparse(node)[:60], 'string formatting -> opaque string'))
                    return k(s, fresh_val(T_STR, 'fmt', s))
                if isinstance(op, ast.Add) and isinstance(b, VObj) and b.sort == 'Str':
                    return k(s, self.uf('str_concat', [a, b], T_STR))
                if isinstance(op, ast.Mult):
                    return k(s, fresh_val(T_STR, 'strmul', s))
            if isinstance(a, VTup) and isinstance(b, VTup) and isinstance(op, ast.Add):
                return k(s, VTup(a.items + b.items))
            if isinstance(a, VRef) and isinstance(b, VRef) and isinstance(op, (ast.Sub, ast.BitAnd, ast.BitOr)) \
                    and isinstance(s.heap[a.rid], HDict) and isinstance(s.heap[b.rid], HDict):
                ha, hb = s.heap[a.rid], s.heap[b.rid]        # set algebra (dict operands count as their key sets)
                if ha.kt is None or hb.kt is None:
                    if isinstance(op, ast.Sub) or (isinstance(op, ast.BitOr) and hb.kt is None):
                        src = ha
                    elif isinstance(op, ast.BitOr):
                        src = hb
                    else:
                        src = HDict(None, None, None, None)
                    return k(s, s.alloc(HDict(src.kt, None, src.mem, None)))
                if ha.kt != hb.kt:
                    raise Unsupported("set operation on different element types (line %s)" % node.lineno)
                kk = z3.Const(fresh_name('sk'), sort_of(ha.kt))
                x, y = z3.Select(ha.mem, kk), z3.Select(hb.mem, kk)
                body = z3.And(x, z3.Not(y)) if isinstance(op, ast.Sub) else (z3.And(x, y) if isinstance(op, ast.BitAnd) else z3.Or(x, y))
                return k(s, s.alloc(HDict(ha.kt, None, z3.Lambda([kk], body), None)))
            if isinstance(a, VRef) and isinstance(b, VRef) and isinstance(op, ast.Add):
                ha, hb = self.hlist(a, s), self.hlist(b, s)
                r = s.alloc(HList(ha.et, ha.arr, ha.n))
                self.list_extend(r, b, s)
                return k(s, r)
            raise Unsupported("binary %s on %r, %r (line %s)" % (type(op).__name__, a, b, node.lineno))
        return self.ev_list([node.left, node.right], st, fin)

    def ev_IfExp(self, node, st, k):
        def after(s, c):
            out = []
            for s2, taken in self.branch(s, self.truth(c, s), 'ifexp@%s' % node.lineno):
                out += self.ev(node.body if taken else node.orelse, s2, k)
            return out
        if self.spec:
            def fin(s, vs):
                c, a, b = vs
                t = type_of_val(a, s)
                return k(s, from_z3(z3.If(self.truth(c, s), to_z3(a, t), to_z3(b, t)), t))
            return self.ev_list([node.test, node.body, node.orelse], st, fin)
        return self.ev(node.test, st, after)

    # ------------------------------------------------------------------ displays
    def ev_Tuple(self, node, st, k):
        return self.ev_list(node.elts, st, lambda s, vs: k(s, VTup(vs)))

    def ev_List(self, node, st, k):
        if any(isinstance(e, ast.Starred) for e in node.elts):
            # [a, *xs, b]: built left to right by append / extend
            def build(s, acc, rest):
                if not rest:
                    return k(s, acc)
                e = rest[0]
                if isinstance(e, ast.Starred):
                    def ext(s2, v):
                        self.list_extend(acc, self.iter_to_list(v, s2), s2)
                        return build(s2, acc, rest[1:])
                    return self.ev(e.value, s, ext)

                def app(s2, v):
                    self.list_append(acc, v, s2)
                    return build(s2, acc, rest[1:])
                return self.ev(e, s, app)
            return build(st, st.alloc(HList(None, None, z3.IntVal(0))), list(node.elts))

        def fin(s, vs):
            if not vs:
                return k(s, s.alloc(HList(None, None, z3.IntVal(0))))
            if any(isinstance(v, VOpt) for v in vs):       # [x] where x is provably not None on this path: a list of T
                from .state import quick_unsat
                pc = [z for z, q in s.pc if q]
                vs = tuple(v.inner if isinstance(v, VOpt) and quick_unsat(pc + [v.isnone], 2000) else v for v in vs)
            et = type_of_val(vs[0], s)
            if et[0] in ('list', 'dict', 'rec'):
                et = T_ANY                        # nested containers: opaque elements (boxed)
            return k(s, self.new_list(s, self.anyfy(et), vs))
        return self.ev_list(node.elts, st, fin)

    def ev_Dict(self, node, st, k):
        if node.keys:
            raise Unsupported("non-empty dict display (line %s)" % node.lineno)
        return k(st, st.alloc(HDict(None, None, None, None)))

    def ev_Set(self, node, st, k):
        raise Unsupported("set display")

    def ev_JoinedStr(self, node, st, k):
        # the embedded expressions are evaluated (they may raise, e.g. ``f"{'-'.join(parts)}"`` for parts = None); the text
        # itself is an opaque string (formatting str / int / list values raises nothing)
        inner = [v.value for v in node.values if isinstance(v, ast.FormattedValue)]
        box = []
        try:
            out = self.ev_list(inner, st.copy(), lambda s, vs: box.append(s) or [])
        except Unsupported as e:
            self.note('rule', (node.lineno, ast.unparse(node)[:60], 'f-string -> opaque string (embedded expressions NOT evaluated: %s)' % str(e)[:60]))
            return k(st, fresh_val(T_STR, 'fstr', st))
        self.note('rule', (node.lineno, ast.unparse(node)[:60], 'f-string -> opaque string (embedded expressions evaluated)'))
        for s in box:
            out = out + k(s, fresh_val(T_STR, 'fstr', s))
        return out

    def ev_Lambda(self, node, st, k):
        return k(st, VFunc('lambda', node=node, fid=st.fid))

    # ------------------------------------------------------------------ comprehensions
    def comp_parts(self, node, st):
        """evaluate `elt for target in iter if conds` symbolically at a universally quantified index.

        -> (src HList, i, cond(i) z3 Bool, value at i (Val)); the body must be pure."""
        if len(node.generators) != 1:
            raise Unsupported("nested comprehension (line %s)" % node.lineno)
        g = node.generators[0]
        box = []
        self.ev(g.iter, st, lambda s, v: box.append((s, v)) or [])
        if len(box) != 1 or box[0][0] is not st:
            raise Unsupported("comprehension source forks (line %s)" % node.lineno)
        src = self.hlist(self.iter_to_list(box[0][1], st), st)
        i = z3.Int(fresh_name('ci'))
        if src.et is None:
            return src, i, z3.BoolVal(False), None
        elem = from_z3(z3.Select(src.arr, i), src.et)
        fid = st.new_frame({}, parent=st.fid)
        saved, st.fid = st.fid, fid
        npc = len(st.pc) - st.closed_defs
        old_spec, self.spec = self.spec, True
        self.in_quant += 1
        try:
            self.bind_target(g.target, elem, st)
            conds = [self.truth(self.pure(c, st), st) for c in g.ifs]
            key = self.pure(node.key, st) if isinstance(node, ast.DictComp) else None
            val = self.pure(node.value if isinstance(node, ast.DictComp) else node.elt, st)
        finally:
            self.spec = old_spec
            self.in_quant -= 1
            st.fid = saved
        if len(st.pc) - st.closed_defs != npc:
            raise Unsupported("comprehension body needs definitional facts (line %s)" % node.lineno)
        cond = z3.And(*conds) if conds else z3.BoolVal(True)
        return src, i, cond, (key, val)

    def pure(self, node, st):
        box = []
        self.ev(node, st, lambda s, v: box.append((s, v)) or [])
        if len(box) != 1 or box[0][0] is not st:
            raise Unsupported("expression is not pure: %s" % ast.unparse(node)[:80])
        return box[0][1]

    def ev_ListComp(self, node, st, k):
        src, i, cond, kv = self.comp_parts(node, st)
        if kv is None:
            return k(st, st.alloc(HList(None, None, z3.IntVal(0))))
        val = kv[1]
        et = self.anyfy(type_of_val(val, st))
        if not node.generators[0].ifs:
            return k(st, st.alloc(HList(et, z3.Lambda([i], to_z3(val, et)), src.n)))
        R = fresh_hlist(et, 'comp', st)
        f = z3.Function(fresh_name('cf'), z3.IntSort(), z3.IntSort())
        g = z3.Function(fresh_name('cg'), z3.IntSort(), z3.IntSort())
        j, j2 = z3.Int(fresh_name('j')), z3.Int(fresh_name('j2'))
        vz = to_z3(val, et)
        sub = lambda e, x: z3.substitute(e, (i, x))
        st.assume(R.n <= src.n)
        st.assume(z3.ForAll([j], z3.Implies(z3.And(0 <= j, j < R.n),
                                            z3.And(0 <= f(j), f(j) < src.n, sub(cond, f(j)),
                                                   z3.Select(R.arr, j) == sub(vz, f(j)), g(f(j)) == j))), qf=False)
        st.assume(z3.ForAll([i], z3.Implies(z3.And(0 <= i, i < src.n, cond),
                                            z3.And(0 <= g(i), g(i) < R.n, f(g(i)) == i,
                                                   z3.Select(R.arr, g(i)) == vz))), qf=False)
        st.assume(z3.ForAll([j, j2], z3.Implies(z3.And(0 <= j, j < j2, j2 < R.n), f(j) < f(j2))), qf=False)
        return k(st, st.alloc(R))

    ev_GeneratorExp = ev_ListComp

    def anyfy(self, t):
        """element types of containers: None has no sort of its own, it lives in the catch-all sort Any."""
        if t == ('none',):
            return T_ANY
        if t[0] == 'tuple':
            return ('tuple', tuple(self.anyfy(a) for a in t[1]))
        return t

    def ev_DictComp(self, node, st, k):
        src, i, cond, kv = self.comp_parts(node, st)
        if kv is None:
            return k(st, st.alloc(HDict(None, None, None, None)))
        key, val = kv
        kt, vt = type_of_val(key, st), type_of_val(val, st)
        D = fresh_hdict(kt, vt, 'dcomp')
        kz, vz = to_z3(key, kt), to_z3(val, vt)
        kk = z3.Const(fresh_name('k'), sort_of(kt))
        wit = z3.Function(fresh_name('dw'), sort_of(kt), z3.IntSort())
        st.assume(z3.ForAll([i], z3.Implies(z3.And(0 <= i, i < src.n, cond), z3.Select(D.mem, kz))), qf=False)
        st.assume(z3.ForAll([kk], z3.Implies(z3.Select(D.mem, kk),
                                             z3.And(0 <= wit(kk), wit(kk) < src.n,
                                                    z3.substitute(cond, (i, wit(kk))),
                                                    z3.substitute(kz, (i, wit(kk))) == kk,
                                                    z3.Select(D.vals, kk) == z3.substitute(vz, (i, wit(kk)))))), qf=False)
        return k(st, st.alloc(D))

    # ------------------------------------------------------------------ assignment targets
    def bind_target(self, target, v, st):
        """simple (non-raising) binding used for loop targets and comprehension variables."""
        if isinstance(target, ast.Name):
            st.env[target.id] = v
            return
        if isinstance(target, (ast.Tuple, ast.List)):
            if isinstance(v, VObj) and v.sort in self.unpack_sorts:
                v = self.unpack_sorts[v.sort](self, st, v)
            if isinstance(v, VTup) and len(v.items) == len(target.elts):
                for t, it in zip(target.elts, v.items):
                    self.bind_target(t, it, st)
                return
        raise Unsupported("binding target %s to %r" % (ast.unparse(target), v))
