"""Types, symbolic values and heap objects of the pyvc executor."""
import itertools
import z3

_counter = itertools.count()


def fresh_name(base):
    return "%s!%d" % (base, next(_counter))


# --------------------------------------------------------------------------
# types (python-side descriptors; tuples so they are hashable)
# --------------------------------------------------------------------------
T_INT = ('int',)
T_BOOL = ('bool',)
T_REAL = ('real',)
T_NONE = ('none',)
T_ANY = ('obj', 'Any')
T_STR = ('obj', 'Str')


def parse_type(s):
    """'List[Layer]', 'Dict[Layer,int]', 'Opt[Str]', 'Tuple[Str,Layer]', 'Rec[Options]', 'int', 'Layer'."""
    if isinstance(s, tuple):
        return s
    s = s.strip()
    if '[' in s:
        head, rest = s.split('[', 1)
        assert rest.endswith(']'), s
        rest = rest[:-1]
        parts, depth, cur = [], 0, ''
        for ch in rest:
            if ch == '[':
                depth += 1
            elif ch == ']':
                depth -= 1
            if ch == ',' and depth == 0:
                parts.append(cur)
                cur = ''
            else:
                cur += ch
        parts.append(cur)
        args = [parse_type(p) for p in parts]
        head = head.strip()
        if head == 'List':
            return ('list', args[0])
        if head == 'Set':
            return ('dict', args[0], None)
        if head == 'Dict':
            return ('dict', args[0], args[1])
        if head == 'Tuple':
            return ('tuple', tuple(args))
        if head == 'Opt':
            return ('opt', args[0])
        if head == 'Rec':
            return ('rec', parts[0].strip())
        raise ValueError("unknown type constructor %r" % s)
    return {'int': T_INT, 'bool': T_BOOL, 'real': T_REAL, 'float': T_REAL,
            'None': T_NONE, 'str': T_STR}.get(s, ('obj', s))


_sorts = {}
_datatypes = {}


def usort(name):
    if name not in _sorts:
        _sorts[name] = z3.DeclareSort(name)
    return _sorts[name]


def type_name(t):
    k = t[0]
    if k in ('int', 'bool', 'real', 'none'):
        return k
    if k == 'obj':
        return t[1]
    if k == 'tuple':
        return 'Tup_' + '_'.join(type_name(a) for a in t[1])
    if k == 'opt':
        return 'Opt_' + type_name(t[1])
    if k == 'list':
        return 'List_' + type_name(t[1])
    if k == 'dict':
        return 'Dict_' + type_name(t[1]) + ('_' + type_name(t[2]) if t[2] else '')
    if k == 'rec':
        return 'Rec_' + t[1]
    raise ValueError(t)


def sort_of(t):
    """z3 sort used to embed a value of type t inside arrays / datatypes."""
    k = t[0]
    if k == 'int':
        return z3.IntSort()
    if k == 'bool':
        return z3.BoolSort()
    if k == 'real':
        return z3.RealSort()
    if k == 'obj':
        return usort(t[1])
    if k == 'tuple':
        nm = type_name(t)
        if nm not in _datatypes:
            d = z3.Datatype(nm)
            d.declare('mk_' + nm, *[('%s_%d' % (nm, i), sort_of(a)) for i, a in enumerate(t[1])])
            _datatypes[nm] = d.create()
        return _datatypes[nm]
    if k == 'opt':
        nm = type_name(t)
        if nm not in _datatypes:
            d = z3.Datatype(nm)
            d.declare('none_' + nm)
            d.declare('some_' + nm, ('val_' + nm, sort_of(t[1])))
            _datatypes[nm] = d.create()
        return _datatypes[nm]
    raise TypeError("type %r cannot be embedded in an SMT array" % (t,))


# --------------------------------------------------------------------------
# values
# --------------------------------------------------------------------------
class Val:
    pass


class VInt(Val):
    def __init__(self, z):
        self.z = z3.IntVal(z) if isinstance(z, int) else z

    def __repr__(self):
        return 'VInt(%s)' % self.z


class VBool(Val):
    def __init__(self, z):
        self.z = z3.BoolVal(z) if isinstance(z, bool) else z

    def __repr__(self):
        return 'VBool(%s)' % self.z


class VReal(Val):
    def __init__(self, z):
        self.z = z3.RealVal(z) if isinstance(z, (int, float)) else z

    def __repr__(self):
        return 'VReal(%s)' % self.z


class VNone(Val):
    def __repr__(self):
        return 'VNone'


NONE = VNone()


class VObj(Val):
    """element of an uninterpreted sort (layers, tests, strings, ...)."""

    def __init__(self, sort, z):
        self.sort = sort
        self.z = z

    def __repr__(self):
        return 'VObj(%s:%s)' % (self.z, self.sort)


class VTup(Val):
    def __init__(self, items):
        self.items = list(items)

    def __repr__(self):
        return 'VTup(%r)' % (self.items,)


class VOpt(Val):
    """None (when isnone) or inner."""

    def __init__(self, isnone, inner):
        self.isnone = isnone
        self.inner = inner

    def __repr__(self):
        return 'VOpt(%s,%r)' % (self.isnone, self.inner)


class VUnb(Val):
    """a local that is bound only on some of the merged paths: `bound` (z3 Bool) tells when."""

    def __init__(self, bound, val):
        self.bound = bound
        self.val = val

    def __repr__(self):
        return 'VUnb(%s,%r)' % (self.bound, self.val)


class VPoison(Val):
    """a loop-scratch variable at the loop head: its old value is of another type and must not be read"""
    def __repr__(self):
        return 'VPoison'


POISON = VPoison()


class VRef(Val):
    def __init__(self, rid):
        self.rid = rid

    def __repr__(self):
        return 'VRef(%d)' % self.rid


class VFunc(Val):
    """kind: 'closure' (node, fid) | 'bound' (recv, name) | 'rule' (...) | 'lambda'."""

    def __init__(self, kind, **data):
        self.kind = kind
        self.data = data

    def __repr__(self):
        return 'VFunc(%s,%s)' % (self.kind, sorted(self.data))


class VClass(Val):
    """a class / module object known only by its dotted name."""

    def __init__(self, name):
        self.name = name

    def __repr__(self):
        return 'VClass(%s)' % self.name


class VExc(Val):
    def __init__(self, cls, args=()):
        self.cls = cls
        self.args = list(args)

    def __repr__(self):
        return 'VExc(%s)' % self.cls


# --------------------------------------------------------------------------
# heap objects (immutable: replaced on write)
# --------------------------------------------------------------------------
class HList:
    def __init__(self, et, arr, n):
        self.et, self.arr, self.n = et, arr, n


class HDict:
    """mem: Array K Bool; vals: Array K V or None (sets / value-less dicts)."""

    def __init__(self, kt, vt, mem, vals):
        self.kt, self.vt, self.mem, self.vals = kt, vt, mem, vals


class HRec:
    def __init__(self, cls, fields, present=None):
        self.cls = cls
        self.fields = dict(fields)
        self.present = dict(present or {})   # name -> z3 Bool (dynamic attributes only)


def type_of_val(v, st):
    if isinstance(v, VInt):
        return T_INT
    if isinstance(v, VBool):
        return T_BOOL
    if isinstance(v, VReal):
        return T_REAL
    if isinstance(v, VNone):
        return T_NONE
    if isinstance(v, VObj):
        return ('obj', v.sort)
    if isinstance(v, VTup):
        return ('tuple', tuple(type_of_val(i, st) for i in v.items))
    if isinstance(v, VOpt):
        return ('opt', type_of_val(v.inner, st))
    if isinstance(v, VRef):
        h = st.heap[v.rid]
        if isinstance(h, HList):
            return ('list', h.et)
        if isinstance(h, HDict):
            return ('dict', h.kt, h.vt)
        return ('rec', h.cls)
    raise TypeError("no type for %r" % (v,))


def to_z3(v, t):
    """embed value v as a term of sort_of(t)."""
    k = t[0]
    if k == 'int':
        if isinstance(v, VBool):
            return z3.If(v.z, 1, 0)
        return v.z
    if k == 'bool':
        return v.z
    if k == 'real':
        if isinstance(v, VInt):
            return z3.ToReal(v.z)
        return v.z
    if k == 'obj':
        if t[1] == 'Any' and not (isinstance(v, VObj) and v.sort == 'Any'):
            return box_any(v)
        if not isinstance(v, VObj) or v.sort != t[1]:
            raise TypeError("expected %s, got %r" % (t[1], v))
        return v.z
    if k == 'tuple':
        s = sort_of(t)
        assert isinstance(v, VTup) and len(v.items) == len(t[1]), (v, t)
        return s.constructor(0)(*[to_z3(i, a) for i, a in zip(v.items, t[1])])
    if k == 'opt':
        s = sort_of(t)
        if isinstance(v, VNone):
            return s.constructor(0)()
        if isinstance(v, VOpt):
            return z3.If(v.isnone, s.constructor(0)(), s.constructor(1)(to_z3(v.inner, t[1])))
        return s.constructor(1)(to_z3(v, t[1]))
    raise TypeError("cannot embed %r as %r" % (v, t))


def box_any(v):
    """inject a value of another sort into the catch-all sort Any (uninterpreted injections)."""
    A = usort('Any')
    if isinstance(v, VNone):
        return z3.Const('Any_None', A)
    if isinstance(v, VObj):
        return z3.Function('box_' + v.sort, usort(v.sort), A)(v.z)
    if isinstance(v, VInt):
        return z3.Function('box_int', z3.IntSort(), A)(v.z)
    if isinstance(v, VBool):
        return z3.Function('box_bool', z3.BoolSort(), A)(v.z)
    if isinstance(v, VTup):
        return z3.Const(fresh_name('anytuple'), A)
    if isinstance(v, VOpt):
        return z3.If(v.isnone, z3.Const('Any_None', A), box_any(v.inner))
    return z3.Const(fresh_name('any'), A)


def from_z3(z, t):
    k = t[0]
    if k == 'int':
        return VInt(z)
    if k == 'bool':
        return VBool(z)
    if k == 'real':
        return VReal(z)
    if k == 'obj':
        return VObj(t[1], z)
    if k == 'tuple':
        s = sort_of(t)
        return VTup([from_z3(s.accessor(0, i)(z), a) for i, a in enumerate(t[1])])
    if k == 'opt':
        s = sort_of(t)
        return VOpt(s.recognizer(0)(z), from_z3(s.accessor(1, 0)(z), t[1]))
    raise TypeError("cannot read %r" % (t,))
