"""pyvc -- verification-condition generator for a subset of Python.

Reads the *real* source text of functions in /repo (via ``ast``), executes it
symbolically against sidecar contracts (``/verif/contracts``) and discharges
every generated obligation with z3 (cvc5 as a second opinion).  See DESIGN.md.
"""
