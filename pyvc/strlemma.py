"""Leaf lemmas about characters, proved in the z3 sequence theory (one loop-free query each, cvc5 as second opinion).

Strings are an uninterpreted sort in the function proofs; a leaf lemma justifies an axiom that relates the
uninterpreted string functions the code uses (slices, endswith, ...) for ALL strings."""
import subprocess
import tempfile
import os
import time
import z3


def pyslice(s, lo, hi):
    """python s[lo:hi] for constant lo/hi (None allowed) as a z3 string term."""
    n = z3.Length(s)

    def norm(b, dflt):
        if b is None:
            return dflt
        v = z3.IntVal(b)
        v = z3.If(v < 0, v + n, v)
        return z3.If(v < 0, 0, z3.If(v > n, n, v))
    l, h = norm(lo, z3.IntVal(0)), norm(hi, n)
    return z3.If(h > l, z3.SubString(s, l, h - l), z3.StringVal(""))


def prove_string_fact(claim, timeout_ms=10000):
    """claim: z3 Bool over free String constants; -> (proved?, backend, seconds)"""
    t0 = time.time()
    s = z3.Solver()
    s.set('timeout', timeout_ms)
    s.add(z3.Not(claim))
    r = s.check()
    if r == z3.unsat:
        return True, 'z3-seq', time.time() - t0
    txt = "(set-logic ALL)\n" + s.to_smt2()
    with tempfile.NamedTemporaryFile('w', suffix='.smt2', delete=False, dir=os.environ.get('PYVC_TMP')) as f:
        f.write(txt)
        name = f.name
    try:
        p = subprocess.run(['/usr/bin/cvc5', '--strings-exp', '--tlimit=%d' % timeout_ms, name], capture_output=True,
                           text=True, timeout=timeout_ms / 1000 + 5)
        if p.stdout.strip().startswith('unsat'):
            return True, 'cvc5-strings', time.time() - t0
    except Exception:
        pass
    finally:
        os.unlink(name)
    return False, 'none', time.time() - t0
