"""Leaf lemmas about regular expressions of the real source, proved in z3's regular-expression theory.

The pattern text is taken from the source (a literal argument of re.compile), parsed with the standard library's own
regex parser (the parse tree CPython compiles) and translated to a z3 regular expression.  Supported: literals,
character classes (ranges, negation, \\d \\w \\s categories over Latin-1), '.', greedy / lazy repetition (language-wise the
same), groups, alternation, '^'/'\\A' at the start and '$'/'\\Z' at the end.  Anything else raises Untranslatable: the lemma
is then reported as not proved (never as proved).

Bytes patterns and str patterns are both modelled over characters; a byte is the character with the same code point."""
import z3

try:                                    # Python >= 3.11
    import re._parser as sre_parse
    import re._constants as sre_constants
except ImportError:                     # pragma: no cover
    import sre_parse
    import sre_constants


class Untranslatable(Exception):
    pass


MAXCHAR = 0x2FFFF       # z3's character sort


def _ch(c):
    return z3.Re(z3.StringVal(chr(c))) if c < 128 and chr(c).isprintable() and chr(c) not in '\\"' else \
        z3.Range(z3.Unit(z3.CharVal(c)), z3.Unit(z3.CharVal(c)))


def _range(lo, hi):
    return z3.Range(z3.Unit(z3.CharVal(lo)), z3.Unit(z3.CharVal(hi)))


def any_char():
    return _range(0, MAXCHAR)


def _category(cat, is_bytes):
    name = str(cat)
    digits = _range(0x30, 0x39)
    word = z3.Union(_range(0x30, 0x39), _range(0x41, 0x5A), _range(0x61, 0x7A), _ch(0x5F))
    space = z3.Union(_range(0x09, 0x0D), _ch(0x20))
    if not is_bytes:
        raise Untranslatable('unicode category %s (only bytes / ASCII categories are modelled)' % name)
    table = {'CATEGORY_DIGIT': digits, 'CATEGORY_WORD': word, 'CATEGORY_SPACE': space}
    neg = {'CATEGORY_NOT_DIGIT': digits, 'CATEGORY_NOT_WORD': word, 'CATEGORY_NOT_SPACE': space}
    if name in table:
        return table[name]
    if name in neg:
        return z3.Intersect(any_char(), z3.Complement(neg[name]))
    raise Untranslatable('category %s' % name)


def _set(items, is_bytes):
    negate = False
    parts = []
    for op, av in items:
        op = str(op)
        if op == 'NEGATE':
            negate = True
        elif op == 'LITERAL':
            parts.append(_ch(av))
        elif op == 'RANGE':
            parts.append(_range(av[0], av[1]))
        elif op == 'CATEGORY':
            parts.append(_category(av, is_bytes))
        else:
            raise Untranslatable('set item %s' % op)
    u = parts[0] if len(parts) == 1 else z3.Union(*parts)
    if negate:
        return z3.Intersect(any_char(), z3.Complement(u))
    return u


def _seq(items, is_bytes, dotall, at_start, at_end):
    """items: a parsed (sub)pattern; at_start / at_end: whether this sequence starts / ends the whole pattern"""
    out = []
    n = len(items)
    for idx, (op, av) in enumerate(items):
        name = str(op)
        first, last = at_start and idx == 0, at_end and idx == n - 1
        if name == 'LITERAL':
            out.append(_ch(av))
        elif name == 'NOT_LITERAL':
            out.append(z3.Intersect(any_char(), z3.Complement(_ch(av))))
        elif name == 'ANY':
            out.append(any_char() if dotall else z3.Intersect(any_char(), z3.Complement(_ch(10))))
        elif name == 'IN':
            out.append(_set(av, is_bytes))
        elif name in ('MAX_REPEAT', 'MIN_REPEAT', 'POSSESSIVE_REPEAT'):
            lo, hi, sub = av
            r = _seq(list(sub), is_bytes, dotall, False, False)
            if hi == sre_constants.MAXREPEAT:
                rep = z3.Star(r) if lo == 0 else (z3.Plus(r) if lo == 1 else z3.Concat(z3.Loop(r, lo, lo), z3.Star(r)))
            else:
                rep = z3.Option(r) if (lo, hi) == (0, 1) else z3.Loop(r, lo, hi)
            out.append(rep)
        elif name == 'SUBPATTERN':
            sub = av[-1]
            if av[1] or av[2]:
                raise Untranslatable('inline flags in a group')
            out.append(_seq(list(sub), is_bytes, dotall, first, last))
        elif name == 'BRANCH':
            alts = [_seq(list(a), is_bytes, dotall, first, last) for a in av[1]]
            out.append(alts[0] if len(alts) == 1 else z3.Union(*alts))
        elif name == 'AT':
            where = str(av)
            if where in ('AT_BEGINNING', 'AT_BEGINNING_STRING') and first:
                continue                              # '^' / '\A' at the very start: implied by match()
            if where == 'AT_END_STRING' and last:
                continue                              # '\Z' at the very end: the caller intersects with "ends here"
            if where == 'AT_END' and last:
                out.append(z3.Option(_ch(10)))        # '$' matches before a trailing newline as well
                continue
            raise Untranslatable('anchor %s inside the pattern' % where)
        else:
            raise Untranslatable('regex construct %s' % name)
    if not out:
        return z3.Re(z3.StringVal(''))
    return out[0] if len(out) == 1 else z3.Concat(*out)


def to_z3(pattern, flags=0):
    """-> (z3 regular expression of the strings the pattern matches ENTIRELY, anchored_at_end?)"""
    import re
    is_bytes = isinstance(pattern, bytes)
    text = pattern.decode('latin-1') if is_bytes else pattern
    if flags & ~(re.DOTALL | re.ASCII):
        raise Untranslatable('flags %r' % flags)
    p = sre_parse.parse(pattern if not is_bytes else pattern, flags)
    items = list(p)
    anchored_end = bool(items) and str(items[-1][0]) == 'AT' and str(items[-1][1]) in ('AT_END', 'AT_END_STRING')
    return _seq(items, is_bytes or bool(flags & re.ASCII), bool(flags & re.DOTALL), True, True), anchored_end


def match_language(pattern, flags=0):
    """the strings s with re.compile(pattern).match(s) is not None  (prefix match unless the pattern ends in '$' / '\\Z')"""
    r, anchored = to_z3(pattern, flags)
    return r if anchored else z3.Concat(r, z3.Star(any_char()))


def fullmatch_language(pattern, flags=0):
    return to_z3(pattern, flags)[0]


def prove_equal(a, b, timeout_ms=20000):
    """are the two z3 regular expressions the same language?  -> (proved?, witness string or reason, seconds)"""
    import time
    t0 = time.time()
    s = z3.String('re_lemma_s')
    for x, y, tag in ((a, b, 'in the code language but not in the specified one'),
                      (b, a, 'in the specified language but not in the code language')):
        sol = z3.Solver()
        sol.set('timeout', timeout_ms)
        sol.add(z3.InRe(s, x), z3.Not(z3.InRe(s, y)))
        r = sol.check()
        if r == z3.sat:
            return False, '%r is %s' % (sol.model()[s].as_string() if sol.model()[s] is not None else '', tag), time.time() - t0
        if r != z3.unsat:
            return False, 'solver answered %s' % r, time.time() - t0
    return True, '', time.time() - t0
