"""Symbolic state, obligations and the solver driver."""
import time
import subprocess
import tempfile
import os
import z3

from .vals import (HList, HDict, HRec, VRef, VInt, VBool, VReal, VObj, VTup, VOpt, NONE,
                   sort_of, fresh_name, from_z3, usort)


class Unsupported(Exception):
    """construct outside the interpreted subset (checker limit, exit 3)."""


class ContractError(Exception):
    """sidecar key that does not resolve any more (undecided, exit 2)."""


class State:
    def __init__(self):
        self.frames = {}      # fid -> {name: Val}
        self.fid = 0
        self.heap = {}        # rid -> H*
        self.pc = []          # [(z3 Bool, qf: bool)]
        self.ghost = {}       # name -> Val
        self.snaps = {}       # label -> (frames, heap, ghost)
        self.path = []        # branch labels
        self.facts = {}       # misc per-path bookkeeping (spec-level), copied shallowly
        self._next = [0]      # shared allocator for rids / fids
        self.closed_defs = 0  # number of pc entries that are closed definitions (allowed inside quantifier bodies)

    def copy(self):
        s = State.__new__(State)
        s.frames = {k: dict(v) for k, v in self.frames.items()}
        s.fid = self.fid
        s.heap = dict(self.heap)
        s.pc = list(self.pc)
        s.ghost = dict(self.ghost)
        s.snaps = dict(self.snaps)
        s.path = list(self.path)
        s.facts = dict(self.facts)
        s._next = self._next
        s.closed_defs = self.closed_defs
        return s

    # -- allocation -------------------------------------------------------
    def new_id(self):
        self._next[0] += 1
        return self._next[0]

    def alloc(self, h):
        rid = self.new_id()
        self.heap[rid] = h
        return VRef(rid)

    def new_frame(self, env, parent=None):
        fid = self.new_id()
        e = dict(env)
        e['__parent__'] = parent
        self.frames[fid] = e
        return fid

    # -- environment ------------------------------------------------------
    @property
    def env(self):
        return self.frames[self.fid]

    def lookup(self, name):
        fid = self.fid
        while fid is not None:
            e = self.frames[fid]
            if name in e:
                return e[name]
            fid = e.get('__parent__')
        return None

    def assume(self, z, qf=True):
        if z3.is_true(z):
            return
        self.pc.append((z, qf))

    def assume_closed(self, z, qf=True):
        """a definitional fact about fresh symbols that mentions no bound variable."""
        self.pc.append((z, qf))
        self.closed_defs += 1

    def snapshot(self, label):
        self.snaps[label] = ({k: dict(v) for k, v in self.frames.items()}, dict(self.heap), dict(self.ghost))

    def hyps(self):
        return [z for z, _ in self.pc]


def fresh_val(t, base, st):
    """a fresh symbolic value of type t (containers are allocated on the heap)."""
    k = t[0]
    if k == 'int':
        return VInt(z3.Int(fresh_name(base)))
    if k == 'bool':
        return VBool(z3.Bool(fresh_name(base)))
    if k == 'real':
        return VReal(z3.Real(fresh_name(base)))
    if k == 'none':
        return NONE
    if k == 'obj':
        return VObj(t[1], z3.Const(fresh_name(base), usort(t[1])))
    if k == 'tuple':
        return VTup([fresh_val(a, '%s_%d' % (base, i), st) for i, a in enumerate(t[1])])
    if k == 'opt':
        return VOpt(z3.Bool(fresh_name(base + '_isnone')), fresh_val(t[1], base, st))
    if k == 'list':
        return st.alloc(fresh_hlist(t[1], base, st))
    if k == 'dict':
        return st.alloc(fresh_hdict(t[1], t[2], base))
    raise Unsupported("cannot create a fresh value of type %r" % (t,))


def fresh_hlist(et, base, st):
    n = z3.Int(fresh_name(base + '_len'))
    st.assume(n >= 0)
    return HList(et, z3.Const(fresh_name(base + '_arr'), z3.ArraySort(z3.IntSort(), sort_of(et))), n)


def fresh_hdict(kt, vt, base):
    mem = z3.Const(fresh_name(base + '_mem'), z3.ArraySort(sort_of(kt), z3.BoolSort()))
    vals = None
    if vt is not None:
        vals = z3.Const(fresh_name(base + '_vals'), z3.ArraySort(sort_of(kt), sort_of(vt)))
    return HDict(kt, vt, mem, vals)


def empty_hlist(et):
    return HList(et, z3.K(z3.IntSort(), z3.Const('dflt_' + str(sort_of(et)), sort_of(et))), z3.IntVal(0))


def empty_hdict(kt, vt):
    mem = z3.K(sort_of(kt), z3.BoolVal(False))
    vals = None
    if vt is not None:
        vals = z3.K(sort_of(kt), z3.Const('dflt_' + str(sort_of(vt)), sort_of(vt)))
    return HDict(kt, vt, mem, vals)


# --------------------------------------------------------------------------
# obligations and the solver
# --------------------------------------------------------------------------
class Obligation:
    __slots__ = ('oid', 'function', 'kind', 'text', 'hyps', 'goal', 'path', 'line',
                 'status', 'backend', 'time', 'detail', 'props')

    def __init__(self, oid, function, kind, text, hyps, goal, path, line=None, props=()):
        self.oid, self.function, self.kind, self.text = oid, function, kind, text
        self.hyps, self.goal, self.path, self.line = hyps, goal, path, line
        self.status = None
        self.backend = None
        self.time = 0.0
        self.detail = ''
        self.props = tuple(props)


def smtlib_of(axioms, hyps, goal):
    s = z3.Solver()
    for a in axioms:
        s.add(a)
    for h in hyps:
        s.add(h)
    s.add(z3.Not(goal))
    return s.to_smt2()


def run_cvc5(smt2, timeout_s):
    with tempfile.NamedTemporaryFile('w', suffix='.smt2', delete=False, dir=os.environ.get('PYVC_TMP')) as f:
        f.write("(set-logic ALL)\n" + smt2)
        name = f.name
    try:
        p = subprocess.run(['/usr/bin/cvc5', '--tlimit=%d' % int(timeout_s * 1000), '--full-saturate-quant', name],
                           capture_output=True, text=True, timeout=timeout_s + 5)
        out = p.stdout.strip().splitlines()
        return out[0] if out else 'unknown'
    except Exception:
        return 'unknown'
    finally:
        os.unlink(name)


def _z3_once(txt, timeout_ms, seed):
    ctx = z3.Context()
    s = z3.Solver(ctx=ctx)
    s.set('timeout', timeout_ms)
    if seed:
        s.set('random_seed', seed)
    s.from_string(txt)
    r = s.check()
    detail = ''
    if r == z3.sat:
        try:
            detail = str(s.model())[:4000]
        except Exception:
            pass
    elif r != z3.unsat:
        detail = s.reason_unknown()
    res = 'unsat' if r == z3.unsat else ('sat' if r == z3.sat else 'unknown')
    del s, ctx
    return res, detail


def solve_text(txt, timeout_ms, use_fallbacks=True):
    """decide one SMT-LIB query: fresh z3 context per attempt (deterministic, no shared term table).

    Portfolio: z3 5.1 with a short budget, then other random seeds (quantifier instantiation order is the usual
    reason for an `unknown`), then the full budget, then z3 4.8.12 and cvc5 on the command line.
    Only `unsat` from some back end counts as proved; `sat` -> failed; anything else -> unknown."""
    t0 = time.time()
    backend = 'z3-' + z3.get_version_string()
    short = min(timeout_ms, 2500)
    r, detail = _z3_once(txt, short, 0)
    status = {'unsat': 'proved', 'sat': 'failed'}.get(r, 'unknown')
    if status == 'unknown' and use_fallbacks:
        for seed in (1, 2, 3):
            r, d2 = _z3_once(txt, short, seed)
            if r == 'unsat':
                status, backend = 'proved', backend + '(seed %d)' % seed
                break
            if r == 'sat':
                status, detail = 'failed', d2
                break
        if status == 'unknown':
            r2 = run_z3_cli(txt, max(2, timeout_ms // 2000))
            if r2 == 'unsat':
                status, backend = 'proved', 'z3-4.8.12-cli'
            elif timeout_ms > short:
                r, d2 = _z3_once(txt, timeout_ms, 0)
                if r == 'unsat':
                    status = 'proved'
                elif r == 'sat':
                    status, detail = 'failed', d2
            if status == 'unknown':
                r3 = run_cvc5(txt, max(2, timeout_ms // 2000))
                if r3 == 'unsat':
                    status, backend = 'proved', 'cvc5-1.0.3'
    return status, backend, detail, time.time() - t0


def run_z3_cli(smt2, timeout_s):
    with tempfile.NamedTemporaryFile('w', suffix='.smt2', delete=False, dir=os.environ.get('PYVC_TMP')) as f:
        f.write(smt2)
        name = f.name
    try:
        p = subprocess.run(['/usr/bin/z3', '-T:%d' % int(timeout_s), name], capture_output=True, text=True,
                           timeout=timeout_s + 5)
        out = p.stdout.strip().splitlines()
        return out[0] if out else 'unknown'
    except Exception:
        return 'unknown'
    finally:
        os.unlink(name)


def discharge(axioms, ob, timeout_ms=10000, use_cvc5=True):
    """unsat(axioms & hyps & not goal) -> 'proved'; else 'failed' (sat) or 'unknown'."""
    txt = smtlib_of(axioms, ob.hyps, ob.goal)
    ob.status, ob.backend, ob.detail, ob.time = solve_text(txt, timeout_ms, use_cvc5)
    return ob.status


def _pool_job(job):
    txt, timeout_ms, fallbacks = job
    try:
        return solve_text(txt, timeout_ms, fallbacks)
    except Exception as e:      # a solver crash is 'unknown', never a verdict
        return 'unknown', 'error', 'solver error: %r' % (e,), 0.0


def discharge_many(axioms, obs, timeout_ms=10000, jobs=1):
    """discharge all obligations whose status is still None (process pool over SMT-LIB texts)."""
    todo = [ob for ob in obs if ob.status is None]
    work = []
    for ob in todo:
        if ob.kind == 'canary':
            work.append((smtlib_of(axioms, ob.hyps, ob.goal), 1500, False))
        else:
            work.append((smtlib_of(axioms, ob.hyps, ob.goal), timeout_ms, True))
    if jobs > 1 and len(work) > 1:
        import multiprocessing
        with multiprocessing.get_context('fork').Pool(min(jobs, len(work))) as pool:
            res = pool.map(_pool_job, work, chunksize=1)
    else:
        res = [_pool_job(w) for w in work]
    for ob, r in zip(todo, res):
        ob.status, ob.backend, ob.detail, ob.time = r


def quick_unsat(zs, timeout_ms=150):
    """cheap infeasibility test on quantifier-free conjuncts (used for path pruning only)."""
    s = z3.Solver()
    s.set('timeout', timeout_ms)
    for z in zs:
        s.add(z)
    return s.check() == z3.unsat
