"""The symbolic executor: expressions, statements, calls, loops, contracts."""
import ast
import fnmatch
import hashlib
import os
import z3

from .vals import (VInt, VBool, VReal, VNone, NONE, VObj, VTup, VOpt, VRef, VFunc, VClass, VExc, Val,
                   HList, HDict, HRec, parse_type, sort_of, usort, to_z3, from_z3, fresh_name,
                   type_of_val, T_INT, T_BOOL, T_STR, T_ANY)
from .state import (State, Obligation, Unsupported, ContractError, fresh_val, fresh_hlist, fresh_hdict,
                    empty_hlist, empty_hdict, discharge, quick_unsat)

EXC_PARENT = {
    'BaseException': None, 'Exception': 'BaseException', 'KeyboardInterrupt': 'BaseException',
    'SystemExit': 'BaseException', 'GeneratorExit': 'BaseException', 'OtherBase': 'BaseException',
    'MemoryError': 'Exception', 'RuntimeError': 'Exception', 'NotImplementedError': 'RuntimeError',
    'EndRun': 'Exception', 'CanNotTearDown': 'Exception', 'OSError': 'Exception',
    'ValueError': 'Exception', 'UnicodeDecodeError': 'ValueError', 'StopIteration': 'Exception',
    'LookupError': 'Exception', 'KeyError': 'LookupError', 'IndexError': 'LookupError',
    'AttributeError': 'Exception', 'TypeError': 'Exception', 'SkipTest': 'Exception',
    'AssertionError': 'Exception', 'OtherException': 'Exception', 'DuplicateTestIDError': 'Exception',
    'Empty': 'Exception', 'UnsupportedOperation': 'OSError', 'ImportError': 'Exception',
    'NameError': 'Exception', 'UnexpectedSuccess': 'Exception', 'ZeroDivisionError': 'Exception',
    'SubprocessError': 'Exception', 'CalledProcessError': 'SubprocessError', 'TimeoutExpired': 'SubprocessError',
    'RecursionError': 'RuntimeError', 'UnicodeError': 'ValueError', 'UnicodeEncodeError': 'UnicodeError',
    'ArithmeticError': 'Exception', 'EOFError': 'Exception', 'BrokenPipeError': 'OSError',
}


def exc_isinstance(cls, handler):
    c = cls
    while c is not None:
        if c == handler:
            return True
        c = EXC_PARENT.get(c)
    return False


class Raise:
    def __init__(self, exc):
        self.exc = exc


class Contract:
    def __init__(self, key, d):
        self.key = key
        self.params = {k: parse_type(v) for k, v in d.get('params', {}).items()}
        self.returns = parse_type(d['returns']) if d.get('returns') else None
        self.requires = list(d.get('requires', []))
        self.modifies = list(d.get('modifies', []))
        self.ensures = list(d.get('ensures', []))
        self.raises = {k: list(v) for k, v in d.get('raises', {}).items()}   # exc -> post conjuncts
        self.loops = d.get('loops', {})          # '#loop1' -> {'inv': [...], 'modifies': [...]} or [...]
        self.callsites = d.get('callsites', {})  # source text of call -> [conjuncts]
        self.rules = d.get('rules', {})          # pattern -> rule (see Engine.apply_rule)
        self.ghost = d.get('ghost', {})          # name -> type   (ghost state G.<name>)
        self.self_fields = {k: parse_type(v) for k, v in d.get('self_fields', {}).items()}
        self.generator = d.get('generator', False)
        self.assigns = d.get('assigns', {})            # 'self.field' -> spec expr: field := value (after havoc, at a call)
        self.ghost_exit = d.get('ghost_exit', {})      # ghost name -> spec expr, assigned at normal exit
        self.expr_rules = d.get('expr_rules', {})      # exact source text of an expression -> rule
        self.decreases = d.get('decreases')
        self.props = d.get('props', {})          # clause text -> [property ids]; default from 'property'
        self.property = d.get('property', [])
        self.trusted = d.get('trusted', False)   # assumed contract (body not verified)
        self.canary = d.get('canary', True)
        self.extra = d


class EngineBase:
    def __init__(self, repo_src, timeout_ms=10000):
        self.repo_src = repo_src
        self.modules = {}
        self.contracts = {}
        self.records = {}       # record class -> {field: type}
        self.record_dynamic = {}  # record class -> names of dynamically created attributes (presence bits)
        self.global_rules = {}  # pattern -> rule
        self.specfuncs = {}     # name -> callable(engine, st, *vals) -> Val
        self.globals = {}       # 'module.name' or 'name' -> python constant / Val factory
        self.axioms = []
        self.obligations = []
        self.ledger = {}        # function -> {'interpreted': set(node types), 'rules': [(line, text, rule)]}
        self.assumptions = []   # human readable
        self.timeout_ms = timeout_ms
        self.strlits = {}
        self.cur = None         # (contract, function qualname) being verified
        self.truthy_sorts = {}  # sort -> 'always' | predicate name
        self.stats = {'paths': 0, 'pruned': 0, 'safety_checks': 0}
        self.objattrs = {}      # (sort, attr) -> type string | callable(engine, st, obj) -> Val
        self.added_axioms = set()
        self.known_modules = {'sys', 'os', 're', 'gc', 'time', 'unittest', 'zope', 'threading', 'subprocess', 'errno',
                              'traceback', 'io', 'math', 'random', 'queue', 'warnings', 'threadsupport'}
        self.iter_sorts = {}      # sort -> callable(engine, st, obj) -> list VRef (iteration sequence)
        self.unpack_sorts = {}    # sort -> callable(engine, st, obj) -> VTup (tuple unpacking of an abstract object)
        self.callable_sorts = {}  # sort -> callable(engine, st, fobj, args) -> Val
        self.objmethods = {}      # (sort, method name) -> handler(engine, st, recv, node, args, kws, k): method of an abstract object
        self.member_sorts = {}    # sort -> callable(engine, st, container obj, x) -> z3 Bool  (``x in obj``)
        self.entry_fid = None
        self.cur_loops = []
        self.lemma_obligations = []
        self._defs = {}
        self.merge_enabled = os.environ.get('PYVC_NOMERGE') is None
        self._lit_by_id = {}
        self.jobs = int(os.environ.get('PYVC_JOBS', '8'))

    # ------------------------------------------------------------------ source
    def module(self, name):
        if name not in self.modules:
            path = os.path.join(self.repo_src, name + '.py')
            src = open(path).read()
            self.modules[name] = (ast.parse(src), src, path)
        return self.modules[name]

    def find_def(self, qual):
        """'runner.TestResult.addError' -> (FunctionDef, module name, source segment)."""
        if qual in self._defs:
            return self._defs[qual]
        parts = qual.split('@')[0].split('.')      # 'module.function@view': a second contract on the same function
        tree, src, _ = self.module(parts[0])
        node = tree
        for p in parts[1:]:
            found = None
            stack = list(node.body)
            while stack:                 # definitions guarded by a module-level ``if`` / ``try`` count as well
                ch = stack.pop(0)
                if isinstance(ch, (ast.FunctionDef, ast.ClassDef)) and ch.name == p:
                    found = ch
                elif isinstance(ch, ast.If):
                    stack = ch.body + ch.orelse + stack
                elif isinstance(ch, ast.Try):
                    stack = ch.body + ch.orelse + ch.finalbody + stack
            if found is None:
                raise ContractError("contract key %s does not resolve (no %r)" % (qual, p))
            node = found
        if not isinstance(node, ast.FunctionDef):
            raise ContractError("%s is not a function" % qual)
        self._defs[qual] = (node, parts[0], ast.get_source_segment(src, node))
        return self._defs[qual]

    def add_contract(self, key, d):
        self.contracts[key] = Contract(key, d)

    def check_views(self):
        """`assumed_ensures` of a contract are used by its callers only; each must be an `ensures` clause of a view
        (a second contract 'qual@view' on the same function, verified on its own, with its own smaller invariants)."""
        for key, c in self.contracts.items():
            for text in c.extra.get('assumed_ensures', []):
                views = [v for k2, v in self.contracts.items() if k2.startswith(key + '@')]
                if not any(text in v.ensures and not v.trusted for v in views):
                    raise ContractError("%s: assumed clause %r is not proved by any view" % (key, text))

    def strlit(self, s):
        if isinstance(s, bytes):
            s = 'b:' + s.decode('latin-1')        # bytes literals: distinct constants of the same opaque sort
        if s not in self.strlits:
            self.strlits[s] = z3.Const('str!%s!%s' % (hashlib.md5(repr(s).encode()).hexdigest()[:6],
                                                     ''.join(c if c.isalnum() else '_' for c in s)[:12]),
                                       usort('Str'))
            self._lit_by_id[self.strlits[s].get_id()] = s
        return VObj('Str', self.strlits[s])

    def all_axioms(self):
        ax = list(self.axioms)
        lits = list(self.strlits.values())
        if len(lits) > 1:
            ax.append(z3.Distinct(*lits))
        return ax

    def note(self, kind, item):
        led = self.ledger.setdefault(self.cur[1] if self.cur else '?', {'interpreted': set(), 'rules': []})
        if kind == 'node':
            led['interpreted'].add(item)
        else:
            if item not in led['rules']:
                led['rules'].append(item)

    # ------------------------------------------------------------------ obligations
    def oblige(self, st, kind, key, text, goal, line=None, props=None):
        fn = self.cur[1]
        oid = "%s/%s[%s]" % (fn, kind, key)
        if props is None:
            props = self.props_for(text)
        ob = Obligation(oid, fn, kind, text, st.hyps(), goal, '/'.join(st.path), line, props)
        self.obligations.append(ob)
        return ob

    def props_for(self, text):
        c = self.cur[0]
        return tuple(c.props.get(text, c.property))

    def check_now(self, st, kind, key, text, goal, line=None, timeout_ms=4000):
        """safety side condition of a partial operation: try to prove at once; returns True when proved."""
        self.stats['safety_checks'] += 1
        ob = Obligation("%s/%s[%s]" % (self.cur[1], kind, key), self.cur[1], kind, text, st.hyps(), goal,
                        '/'.join(st.path), line, self.cur[0].property)
        r = discharge(self.all_axioms(), ob, timeout_ms, use_cvc5=False)
        if r == 'proved':
            self.obligations.append(ob)
            return True
        return False

    # ------------------------------------------------------------------ basic value helpers
    def truth(self, v, st):
        """z3 Bool: python truthiness of v."""
        if isinstance(v, VBool):
            return v.z
        if isinstance(v, VInt):
            return v.z != 0
        if isinstance(v, VReal):
            return v.z != 0
        if isinstance(v, VNone):
            return z3.BoolVal(False)
        if isinstance(v, VOpt):
            return z3.And(z3.Not(v.isnone), self.truth(v.inner, st))
        if isinstance(v, VTup):
            return z3.BoolVal(len(v.items) > 0)
        if isinstance(v, VRef):
            h = st.heap[v.rid]
            if isinstance(h, HList):
                return h.n > 0
            if isinstance(h, HDict):
                w = z3.Const(fresh_name('wit'), sort_of(h.kt))
                b = z3.Bool(fresh_name('nonempty'))
                k = z3.Const(fresh_name('k'), sort_of(h.kt))
                st.assume(z3.Implies(b, z3.Select(h.mem, w)))
                st.assume(z3.Implies(z3.Not(b), z3.ForAll([k], z3.Not(z3.Select(h.mem, k)))), qf=False)
                return b
            return z3.BoolVal(True)
        if isinstance(v, VObj):
            mode = self.truthy_sorts.get(v.sort, 'pred')
            if mode == 'always':
                return z3.BoolVal(True)
            f = z3.Function('truthy_' + v.sort, usort(v.sort), z3.BoolSort())
            return f(v.z)
        if isinstance(v, (VFunc, VClass, VExc)):
            return z3.BoolVal(True)
        raise Unsupported("truthiness of %r" % (v,))

    def eq(self, a, b, st):
        """z3 Bool for python == (identity for uninterpreted objects)."""
        if isinstance(a, VOpt) or isinstance(b, VOpt):
            an, ai = (a.isnone, a.inner) if isinstance(a, VOpt) else (z3.BoolVal(isinstance(a, VNone)), a)
            bn, bi = (b.isnone, b.inner) if isinstance(b, VOpt) else (z3.BoolVal(isinstance(b, VNone)), b)
            if isinstance(ai, VNone) or isinstance(bi, VNone):
                return z3.And(an, bn)
            return z3.Or(z3.And(an, bn), z3.And(z3.Not(an), z3.Not(bn), self.eq(ai, bi, st)))
        if isinstance(a, VNone) or isinstance(b, VNone):
            return z3.BoolVal(isinstance(a, VNone) and isinstance(b, VNone))
        if isinstance(a, (VInt, VBool)) and isinstance(b, (VInt, VBool)):
            if isinstance(a, VBool) and isinstance(b, VBool):
                return a.z == b.z
            return to_z3(a, T_INT) == to_z3(b, T_INT)
        if isinstance(a, (VInt, VReal)) and isinstance(b, (VInt, VReal)):
            return to_z3(a, ('real',)) == to_z3(b, ('real',))
        if isinstance(a, VObj) and isinstance(b, VObj):
            if a.sort != b.sort:
                return z3.BoolVal(False)
            return a.z == b.z
        if isinstance(a, VTup) and isinstance(b, VTup):
            if len(a.items) != len(b.items):
                return z3.BoolVal(False)
            return z3.And(*[self.eq(x, y, st) for x, y in zip(a.items, b.items)]) if a.items else z3.BoolVal(True)
        if isinstance(a, VRef) and isinstance(b, VRef):
            ha, hb = st.heap[a.rid], st.heap[b.rid]
            if isinstance(ha, HList) and isinstance(hb, HList) and ha.et == hb.et:
                if a.rid == b.rid:
                    return z3.BoolVal(True)
                i = z3.Int(fresh_name('i'))
                return z3.And(ha.n == hb.n, z3.ForAll([i], z3.Implies(z3.And(0 <= i, i < ha.n),
                                                                       z3.Select(ha.arr, i) == z3.Select(hb.arr, i))))
            if isinstance(ha, HDict) and isinstance(hb, HDict) and ha.kt == hb.kt:
                k = z3.Const(fresh_name('k'), sort_of(ha.kt))
                return z3.ForAll([k], z3.Select(ha.mem, k) == z3.Select(hb.mem, k))
            return z3.BoolVal(a.rid == b.rid)
        if isinstance(a, VClass) and isinstance(b, VClass):
            return z3.BoolVal(a.name == b.name)
        if type(a) is not type(b):
            return z3.BoolVal(False)
        raise Unsupported("equality of %r and %r" % (a, b))

    def branch(self, st, cond, label):
        """-> [(state, taken: bool)] with infeasible sides pruned (quantifier-free check only)."""
        cond = z3.simplify(cond)
        if z3.is_true(cond):
            return [(st, True)]
        if z3.is_false(cond):
            return [(st, False)]
        out = []
        qf = [z for z, q in st.pc if q]
        for taken, c in ((True, cond), (False, z3.Not(cond))):
            if quick_unsat(qf + [c]):
                self.stats['pruned'] += 1
                continue
            s2 = st.copy()
            s2.assume(c)
            s2.path.append('%s%s' % (label, '+' if taken else '-'))
            out.append((s2, taken))
        if len(out) == 1:       # keep the original path name short when nothing forked
            out[0][0].path.pop()
        return out

    # -- list helpers -----------------------------------------------------
    def hlist(self, v, st):
        if isinstance(v, VRef) and isinstance(st.heap[v.rid], HList):
            return st.heap[v.rid]
        raise Unsupported("expected a list, got %r" % (v,))

    def list_contains(self, h, x, st):
        i = z3.Int(fresh_name('i'))
        return z3.Exists([i], z3.And(0 <= i, i < h.n, z3.Select(h.arr, i) == to_z3(x, h.et)))

    def new_list(self, st, et, items=()):
        h = empty_hlist(et)
        arr, n = h.arr, 0
        for it in items:
            arr = z3.Store(arr, n, to_z3(it, et))
            n += 1
        return st.alloc(HList(et, arr, z3.IntVal(n)))

    def iter_to_list(self, v, st):
        """a list value (VRef to HList) holding the iteration sequence of v (lists, tuples, dict keys)."""
        if isinstance(v, VTup):
            if not v.items:
                return self.new_list(st, T_ANY, [])
            et = type_of_val(v.items[0], st)
            return self.new_list(st, et, v.items)
        if isinstance(v, VRef):
            h = st.heap[v.rid]
            if isinstance(h, HList):
                return v
            if isinstance(h, HDict):
                return self.dict_keys_list(h, st)
        if isinstance(v, VObj) and v.sort in self.iter_sorts:
            return self.iter_sorts[v.sort](self, st, v)
        if isinstance(v, VOpt):
            return self.iter_to_list(v.inner, st)
        if isinstance(v, VRef) and isinstance(st.heap[v.rid], HRec) and st.heap[v.rid].cls == 'iterator':
            it = st.heap[v.rid]
            if self.const_int(it.fields['pos']) == 0:        # a fresh iterator: the whole sequence
                return it.fields['list']
        raise Unsupported("iteration over %r" % (v,))

    def dict_keys_list(self, h, st):
        """fresh list: duplicate-free, members exactly the keys (order left unspecified)."""
        key = ('keys', id(h))
        if key in st.facts:
            return st.facts[key][1]
        if h.kt is None:                      # a set / dict nothing typed was ever put into: it is empty
            from .vals import HList
            return st.alloc(HList(None, None, z3.IntVal(0)))
        L = fresh_hlist(h.kt, 'keys', st)
        i, j = z3.Int(fresh_name('i')), z3.Int(fresh_name('j'))
        k = z3.Const(fresh_name('k'), sort_of(h.kt))
        idx = z3.Function(fresh_name('keyidx'), sort_of(h.kt), z3.IntSort())
        st.assume(z3.ForAll([i], z3.Implies(z3.And(0 <= i, i < L.n),
                                            z3.And(z3.Select(h.mem, z3.Select(L.arr, i)),
                                                   idx(z3.Select(L.arr, i)) == i))), qf=False)
        st.assume(z3.ForAll([k], z3.Implies(z3.Select(h.mem, k),
                                            z3.And(0 <= idx(k), idx(k) < L.n, z3.Select(L.arr, idx(k)) == k))), qf=False)
        ref = st.alloc(L)
        st.facts[key] = (h, ref)    # hold h so that id(h) stays valid
        return ref
