"""Which functions (under which sidecar) carry which property; bounded parts; level texts."""

L, RR, RUN = 'runner_layers', 'runner_result', 'runner_run'
TR = 'runner.TestResult.'
LAYER_FNS = [(L, 'runner.gather_layers'), (L, 'runner.order_by_bases'), (L, 'runner.order_by_bases@complete'), (L, 'runner.setup_layer'),
             (L, 'runner.tear_down_unneeded'), (L, 'runner.run_layer')]
EVENTS = [(RR, TR + m) for m in ('addError', 'addFailure', 'addUnexpectedSuccess', 'addSubTest', 'addSuccess',
                                 'addExpectedFailure', 'addSkip')]
PROTOCOL = (RR, 'unittest_protocol.case_run')
RUN_TESTS = (RR, 'runner.run_tests')
RUNNER_LOOP = (RUN, 'runner.Runner.run_tests')

# property -> list of (sidecar, function).  Every obligation generated for these functions is an obligation
# of the property's check (contracts are shared between properties: a callee's contract carries several).
FUNCTIONS = {
    'C01': LAYER_FNS + [RUNNER_LOOP]
           # "the test's layer": a test is registered under (and so run with) the layer declared nearest to it
           + [('find_c09', 'find.tests_from_suite'), ('select_c03', 'find.find_tests'), ('select_c03', 'find.find_tests@order')]
           # a child process registers at most the layer it was started for (so nothing runs on top of a refused tearDown there)
           + [('select_c03', 'filter.Filter.global_setup')]
           # ... and finds it by the name the parent computed: the two name functions over the shared name cache
           + [('names_c01', 'find.name_from_layer'), ('names_c01', 'runner.layer_from_name')],
    'C02': [(L, 'runner.handle_layer_failure'), (L, 'runner.handle_layer_failure@unprintable'), (L, 'runner.tear_down_unneeded'), (L, 'runner.run_layer'),
            RUN_TESTS, RUNNER_LOOP, ('runner_spawn', 'runner.spawn_layer_in_subprocess'),
            # import errors are bad outcomes too: they reach the verdict through tests_from_suite / find_tests
            ('find_c09', 'find.tests_from_suite'), ('select_c03', 'find.find_tests'), ('select_c03', 'find.find_tests@order'), ('find_c02', 'find.Find.global_setup'),
            ('find_c14', 'find.find_suites'),              # whatever a test module raises on import becomes an import error
            ('features_c18', 'runner.Runner.run')]
           # copying a child's output can never raise (it would be turned into a 'subprocess for <layer>' error of a passing run)
           + [('runner_sched', 'runner._get_output_buffer'), ('runner_sched', 'runner.ImmediateSubprocessResult.__init__'), ('runner_sched', 'runner.ImmediateSubprocessResult.write')],
    'C07': [('runner_spawn', 'runner.spawn_layer_in_subprocess'), ('process_c07', 'process.SubProcess.report'),
            ('formatter_c13', 'process.SubProcess.global_setup'),
            ('features_c18', 'runner.Runner.run')],        # the child reports only after a test phase that ended normally
    'C04': [(L, 'runner.setup_layer'), (L, 'runner.tear_down_unneeded'), (L, 'runner.run_layer'),
            (L, 'runner.handle_layer_failure'), (RR, TR + '_restoreStdStreams'), (RR, TR + 'startTest'),
            (RR, TR + 'stopTest')] + EVENTS + [PROTOCOL, RUN_TESTS, RUNNER_LOOP]
           # the run loop's other callees must not raise either: the scheduler of resumed layers, and the chain walk of
           # the runner's own traceback printer (reached from handle_layer_failure through traceback.print_exc)
           + [('runner_sched', 'runner.resume_tests'), ('tbformat_c04', 'tb_format._iter_chain')],
    'C05': [(L, 'runner.gather_layers'), (L, 'runner.order_by_bases'), (L, 'runner.order_by_bases@complete'), (RR, TR + '__init__'), (RR, TR + 'testSetUp'),
            (RR, TR + 'testTearDown'), (RR, TR + 'startTest'), (RR, TR + 'stopTest'), (RR, TR + 'addSkip'), PROTOCOL,
            RUN_TESTS],        # the test loops: stopTest (hence testTearDown) also when --post-mortem / ^C ends the loop early
    'C08': [('filter_c08', 'filter.build_filtering_func'), ('find_c14', 'find.find_suites'),
            ('select_c03', 'filter.Filter.global_setup'), ('select_c03', 'find.find_tests'), ('select_c03', 'find.find_tests@order'),
            ('options_c08', 'options.get_options@filters'),
            ('find_c09', 'find.tests_from_suite'),                      # where the --test filter is consulted, and on which name
            ('find_c14', 'find.find_test_files_'), ('find_c14', 'find.find_test_files'),   # no file is dropped before the filter is asked
            ('runner_spawn', 'runner.spawn_layer_in_subprocess'),       # children decide with the parent's patterns: argv handed on unchanged
            ('configure_c03', 'runner.Runner.configure')],
    'C12': [(RR, TR + 'startTest'), (RR, TR + 'addSkip'), PROTOCOL, RUN_TESTS, RUNNER_LOOP,
            ('process_c07', 'process.SubProcess.report'), ('report_c12', 'statistics.Statistics.report'),
            ('report_c12', 'filter.Filter.report'),
            ('runner_spawn', 'runner.spawn_layer_in_subprocess')],      # child -> parent transfer of count and names
    'C13': [(RR, TR + '__init__'), (RR, TR + '_setUpStdStreams'), (RR, TR + '_restoreStdStreams'),
            (RR, TR + 'startTest'), (RR, TR + 'stopTest')] + EVENTS + [PROTOCOL, RUN_TESTS]
           + [('formatter_c13', f) for f in ('formatter.OutputFormatter.print_std_streams', 'formatter.OutputFormatter.test_error',
                                             'formatter.OutputFormatter.test_failure', 'process.SubProcess.global_setup')],
    'C16': [(RR, TR + m) for m in ('addError', 'addFailure', 'addUnexpectedSuccess', 'addSubTest')]
           + [PROTOCOL, RUN_TESTS, RUNNER_LOOP]
           + LAYER_FNS[2:] + [(L, 'runner.handle_layer_failure')],     # the final tear-down and verdict on every path
    'C19': [(RR, TR + 'startTest'), (RR, TR + 'addSkip'), (RR, TR + 'stopTest'), ('threads_c19', 'threadsupport.enumerate')],
    'C17': [('formatter_c17', 'formatter.XMLOutputFormattingWrapper._record'), ('formatter_c17', 'formatter.parse_unittest'),
            ('formatter_c17', 'formatter.TestSuiteInfo.tests'),
            ('formatter_c17', 'formatter.XMLOutputFormattingWrapper.writeXMLReports')]
           # every reported result is recorded exactly once with its own failure / error; the runner writes the reports once
           + [('formatter_c17', 'formatter.XMLOutputFormattingWrapper.' + m) for m in ('test_failure', 'test_error', 'test_success', 'import_errors')]
           + [('features_c18', 'runner.Runner.run')]
           # the name parsers _record tries first: a complete name or none at all, and no exception (the contract _record assumes)
           + [('formatter_parsers', 'formatter.' + f) for f in ('filename_to_suite_name_parts', 'parse_doc_file_case',
                                                                'parse_doc_test_case', 'parse_manuel', 'parse_startup_failure')],
    'C18': [('features_c18', f) for f in (
        'garbagecollection.Threshold.global_setup', 'garbagecollection.Threshold.global_teardown',
        'garbagecollection.Debug.global_setup', 'garbagecollection.Debug.global_teardown',
        'tb_format.Traceback.global_setup', 'tb_format.Traceback.global_teardown',
        'coverage.TestTrace.__init__', 'coverage.TestTrace.start', 'coverage.TestTrace.stop',
        'coverage.Coverage.global_setup', 'coverage.Coverage.early_teardown', 'runner.Runner.run')]
           + [(RR, TR + '_setUpStdStreams'), (RR, TR + '_restoreStdStreams'), (RR, TR + 'startTest'), (RR, TR + 'stopTest')]
           + EVENTS + [PROTOCOL, RUN_TESTS],      # sys.stdout / sys.stderr: everything the restoration argument uses
    'C09': [('find_c09', 'find.tests_from_suite'), ('find_c15', 'options.get_options'),
            ('select_c03', 'filter.Filter.global_setup')],
    'C11': [('shuffle_c11', 'shuffle.Shuffle.__init__'), ('shuffle_c11', 'shuffle.Shuffle.global_setup'),
            ('find_c15', 'options.get_options@paths')],       # "the same discovered tests": search directories in command-line order
    'C15': [('find_c15', 'find.remove_stale_bytecode'), ('find_c15', 'find.remove_stale_bytecode@prune'), ('find_c15', 'options.get_options'), ('find_c15', 'options.get_options@paths'),
            ('find_c14', 'find.walk_with_symlinks')],
    'C20': [('digraph_c20', 'digraph.DiGraph.sccs'), ('digraph_c20', 'digraph.DiGraph.sccs@partition'),
            ('digraph_c20', 'digraph.DiGraph.neighbors')],
    'C03': [('find_c09', 'find.tests_from_suite'), ('select_c03', 'find.find_tests'), ('select_c03', 'find.find_tests@order'),
            ('select_c03', 'filter.Filter.global_setup'), ('select_c03', 'listing.Listing.global_setup'),
            ('select_c03', 'listing.Listing.report'), ('runner_order', 'runner.order_by_bases'), ('runner_order', 'runner.order_by_bases@complete'),
            ('runner_order', 'runner.Runner.ordered_layers'), RUN_TESTS, RUNNER_LOOP,
            ('runner_spawn', 'runner.spawn_layer_in_subprocess'), ('features_c18', 'runner.Runner.run'),
            ('find_c14', 'find.find_test_files'), ('runner_sched', 'runner.resume_tests'),
            ('configure_c03', 'runner.Runner.configure'),
            ('shuffle_c11', 'shuffle.Shuffle.__init__'), ('shuffle_c11', 'shuffle.Shuffle.global_setup'),   # same order in every mode
            # children see the same source tree: started in the directory the run was started from (relative search paths)
            ('startdir_c03', '__init__.run_internal'), ('startdir_c03', 'runner.Runner.__init__'),
            ('names_c01', 'find.name_from_layer'), ('names_c01', 'runner.layer_from_name')],   # the child finds its layer by that name
    'C06': [('runner_sched', 'runner.resume_tests'), ('runner_spawn', 'runner.spawn_layer_in_subprocess'),
            ('process_c07', 'process.SubProcess.report'),       # sentence 1 composes the lossless transfer (C07)
            # what of a child's stdout is kept for its block: everything but the keep-alive dot lines (regex lemma)
            ('runner_sched', 'runner.DeferredSubprocessResult.write'), ('runner_sched', 'runner.KeepaliveSubprocessResult.write'),
            ('select_c03', 'filter.Filter.global_setup')]       # sentence 1: the child of a layer runs exactly that layer (name equality)
           + [('runner_sched', 'runner._get_output_buffer'), ('runner_sched', 'runner.ImmediateSubprocessResult.__init__'), ('runner_sched', 'runner.ImmediateSubprocessResult.write')],   # the third collector: bytes in, bytes out, no exception
    'C14': [('find_c14', f) for f in ('find.strip_py_ext', 'find.contains_init_py', 'find.find_test_files_',
                                      'find.find_test_files', 'find.find_suites', 'find.test_dirs',
                                      'options.get_options@prefix')]
           + [('options_c08', 'options.get_options@filters'), ('filter_c08', 'filter.build_filtering_func'),   # what --module accepts
              ('find_c15', 'options.get_options@paths'),
              ('find_c14', 'find.walk_with_symlinks')],           # what the walk hands over per directory (sorted, pruned)

    'C10': [('runner_order', f) for f in ('runner.gather_layers', 'runner.order_by_bases', 'runner.order_by_bases@unitfirst', 'runner.order_by_bases@complete',
                                          'runner.layer_sort_key', 'runner.layer_sort_key._gather',
                                          'runner.Runner.ordered_layers')]
           + [('runner_sched', 'runner.resume_tests'),        # resumed layers are started in the order they are handed over
              RUNNER_LOOP,                                       # ... and handed over in the order ordered_layers gave
              ('select_c03', 'filter.Filter.global_setup')],     # a child runs its own layer only: no layer appears twice in the order
}

NATIVE = {p: p.lower() for p in ['C%02d' % i for i in range(1, 21)]}
NATIVE_BUDGET = {'quick': 20, 'thorough': 180}
HOOK_COMMITS = []

COMMON_NOTE = ("Trusted: the VC generator pyvc itself (mitigated by canaries, mutation self-tests, the loop frame check); "
               "z3/cvc5; CPython semantics of the interpreted subset as encoded (ints mathematical, identity equality of "
               "layers/tests, no aliasing between distinct container parameters); assumed contracts of builtins, stdlib and "
               "formatter methods listed in evidence.assumptions / coverage.abstractions_applied. ")

MANIFEST = {
    'C01': {
        'text': "Proof: every obligation generated from the current source of gather_layers, order_by_bases, setup_layer, "
                "tear_down_unneeded, run_layer and Runner.run_tests is discharged, for all layer DAGs, all sets of set-up "
                "layers and all placements of raising hooks: call-site obligations at layer.setUp() (not set up, all bases set "
                "up, no refused tearDown before), at layer.tearDown() (set up, nothing derived still set up) and at the "
                "test-execution site (set-up set == layer + transitive bases), the key leaves setup_layers on every path after "
                "its tearDown attempt, CanNotTearDown only when not optional, nothing left set up when Runner.run_tests "
                "returns, no run_layer after a refused tearDown; 'the test's layer' is the nearest declaration and the test is "
                "registered under that layer's own name (tests_from_suite == FLAT, find_tests placement); a child process registers "
                "at most the layer it was started for (Filter.global_setup, string equality) and finds it by the name the parent "
                "computed (name_from_layer / layer_from_name verified over the shared name cache, emptied at the start of every run). "
                "A bounded oracle on the real Runner replays failures.",
        'note': COMMON_NOTE + "Assumed: hook contracts (return or raise; cannot reach setup_layers), acyclic __bases__; "
                "no two layers share module and name (then the names are a key); a spawned child "
                "starts with nothing set up (OS); 'tearDown attempted exactly once' is proved as 'the key is removed on every "
                "path right after the single tearDown call site', not over a ghost event log.",
    },
    'C02': {
        'text': "Proof of the verdict chain for in-process layers: Runner.run_tests ends with failed == (import_errors or "
                "failures or errors non-empty) and, outside --post-mortem, ghost count of bad outcomes == growth of "
                "failures+errors, through the growth contracts of handle_layer_failure (+1), tear_down_unneeded "
                "(NotImplementedError: +0, other exceptions: +1), run_layer (set-up failure: +1) and run_tests (the unittest "
                "protocol harness: +1 per addError/addFailure/addUnexpectedSuccess/addSubTest(exc)); "
                "spawn_layer_in_subprocess records exactly one error for a child that cannot be started / dies / reports "
                "incompletely, and exactly the reported names otherwise (for arbitrary child output); whatever a test module raises "
                "on import or in test_suite() (any BaseException but KeyboardInterrupt) becomes an import error (find_suites); "
                "Runner.run reaches feature.report() -- in a child the result channel -- only after a test phase that ended "
                "normally; handle_layer_failure records the failure on every normal return even when printing it raises (second "
                "contract without the formatter assumption); the immediate collector copies a child's bytes to a stream that "
                "takes bytes, so copying can never raise and fail a passing layer. resume_tests (the scheduler) is an assumed "
                "contract here, bounded by the native oracle.",
        'note': COMMON_NOTE + "Not decided here: OS exit status; child report transfer (see C07); --post-mortem runs end "
                "with EndRun and return 'passed' by upstream's documented behaviour (testrunner-debugging.rst). Known "
                "findings: header-like / unterminated stderr noise (unframed child protocol).",
    },
    'C04': {
        'text': "Proof: exceptional postconditions ('raises only ...') of setup_layer, tear_down_unneeded, run_layer, "
                "run_tests and Runner.run_tests, and no-raise contracts of every TestResult result method under the "
                "typestate the unittest call protocol can produce; the protocol itself (CPython 3.12.1 TestCase.run) is an "
                "operational contract executed by the verifier against the method contracts, so every history (several "
                "events per test, skips without startTest, KeyboardInterrupt) is a path. Only KeyboardInterrupt-like "
                "exceptions, MemoryError and exceptions of per-test layer hooks escape.",
        'note': COMMON_NOTE + "Assumed: formatter methods do not raise; layer hooks do not raise the runner's own EndRun/"
                "CanNotTearDown; the unittest protocol as read from CPython 3.12.1 (bounded conformance in the native oracle).",
    },
    'C05': {
        'text': "Proof: TestResult.__init__ builds a duplicate-free bases-first list of exactly the layer and its transitive "
                "bases; testSetUp calls the hook of layers[i] at iteration i, testTearDown that of layers[n-1-i] (exact "
                "reverse); a ghost 'per-test set-up pending' bit makes balance a precondition of testTearDown, required at "
                "its only call site (stopTest) and established on every protocol path including the start-less addSkip of "
                "Python >= 3.12.1; the test loops of run_tests leave the hooks balanced also on their exceptional exits "
                "(--post-mortem: EndRun out of addError; KeyboardInterrupt), unless a hook itself raised.",
        'note': COMMON_NOTE + "Assumed: per-test hooks do not raise (a raising hook aborts the run by design); that "
                "startTest precedes the test's own setUp and stopTest follows its tearDown is the unittest protocol.",
    },
    'C07': {
        'text': "Proof about the parent for ARBITRARY child output: spawn_layer_in_subprocess (Popen, pipes, reader thread "
                "abstract) sets result.done on every path, lets no exception escape (it is a thread target), records exactly "
                "one error and no names when the child could not be started, delivered nothing, sent no header-like line, or a "
                "report that is cut short or undecodable anywhere (never partial data), and transfers count, failure names "
                "and error names exactly and in order when the lines after the first header-like line are complete; the child "
                "is re-invoked with --resume-layer, the parent's defaults and original arguments (call-site obligations on the "
                "argument list). Child side: SubProcess.report writes header(ran, #failures, #errors) and one line per entry, "
                "nothing else -- and only after a test phase that ended normally (Runner.run: a child dying from an escaping "
                "exception delivers no report).",
        'note': COMMON_NOTE + "Not decided: termination (liveness, OS), that a dead child's pipes reach EOF. Assumed: "
                "header-likeness / decoding as predicates of a line. Known findings (unframed protocol): header-like or "
                "unterminated stderr noise, '\\r' in names, truncation inside the last name.",
    },
    'C08': {
        'text': "Proof: build_filtering_func returns a closure whose value equals the predicate of the statement for every "
                "pattern list and every name matched by '.', by a loop invariant over the real loop (selected / unselected "
                "hold exactly the searchers of the positive patterns / of the bodies of the negated ones) and inlining of "
                "the real closure; regular expressions are an uninterpreted pure predicate. Use: the filter is consulted before import "
                "on exactly the imported module name (find_suites), --test decides on str(test) alone (tests_from_suite == FLAT), "
                "--layer in Filter.global_setup; get_options merges the positional filters as the last pattern ('.' is a "
                "placeholder and adds nothing) and installs ['.'] only when no filter was given; children are started with, and "
                "parse back, the parent's own words (spawn_layer_in_subprocess call-site clauses, Runner.configure).",
        'note': COMMON_NOTE + "Assumed: re.compile(p).search is a pure predicate; names contain a non-newline character. "
                "The three corollaries and pattern interaction (one alternation regex) are covered by the bounded oracle only.",
    },
    'C12': {
        'text': "Proof of the arithmetic of one layer: startTest/addSkip adjust testsRun by countTestCases, every protocol "
                "history leaves ghost bad-count == len(failures)+len(errors)+len(unexpectedSuccesses) of the result, "
                "run_tests passes n_failures == len(failures)+len(unexpectedSuccesses) to the summary and extends the "
                "runner lists by exactly the result lists (pairs); stopTest ends the per-test state so that the start-less addSkip "
                "counts a later decorator-skipped test; the child header carries ran/#failures/#errors and the parent transfers "
                "count and names exactly (spawn_layer_in_subprocess); Statistics.report / Filter.report print the runner's own "
                "counters and lists. Totals across real processes are bounded (native oracle).",
        'note': COMMON_NOTE + "Assumed: base-class list appends; formatter. Known finding: skipped count not transferred "
                "from child processes.",
    },
    'C13': {
        'text': "Proof over ghost std streams: _setUpStdStreams/_restoreStdStreams contracts, every result method leaves the "
                "originals installed, stopTest restores them when no event did, every protocol history (and every "
                "exceptional exit of test(result)) ends with sys.stdout/sys.stderr == the originals; run_tests and "
                "Runner.run_tests return with the streams unchanged; without --buffer no assignment is reachable; captured "
                "text is passed to exactly the test_error/test_failure call of the event that drained it.",
        'note': COMMON_NOTE + "Assumed: io semantics of the capture buffer; tests do not replace the streams themselves. "
                "Known findings: output written after a test's first result event is not captured (two keys).",
    },
    'C16': {
        'text': "Proof: every bad result method sets shouldStop under --stop-on-error (outside --post-mortem); the protocol "
                "harness carries it to the end of test(result); call-site obligation in run_tests: no test starts once this "
                "call recorded a bad outcome (outer invariant over --repeat iterations); call-site obligation in "
                "Runner.run_tests: no run_layer after the lists grew; final tear-down and verdict on every path.",
        'note': COMMON_NOTE + "Assumed: unittest protocol; TestResult.stop sets shouldStop. --post-mortem is outside the claim.",
    },
    'C09': {
        'text': "Proof: tests_from_suite yields exactly FLAT(suite) -- a specification function written from the statement "
                "(a test is yielded with its nearest layer iff its nearest level is <= --at-level, any level when at-level <= 0, "
                "or == --only-level when given, and the --test filter accepts it; a suite is the concatenation of its children, "
                "which inherit the suite's nearest declaration; defaults come from the caller) -- by structural induction over "
                "arbitrarily deep suite trees (decreases: tree height; loop invariant: yielded so far == FLAT of the children "
                "visited). The tail of get_options is verified as a fragment: --all sets at_level to sys.maxsize, -u -f cancel "
                "each other, --usecompiled implies --keepbytecode.",
        'note': COMMON_NOTE + "Assumed: getattr/str/isinstance are pure; levels <= sys.maxsize (A-WORD). The unit-layer "
                "keep/drop decision of Filter.global_setup is covered by the bounded oracle only.",
    },
    'C11': {
        'text': "Proof: Shuffle.global_setup replaces the suite of each registered layer by a suite over a permutation of that "
                "layer's own tests (ghost permutation witness updated at the swap; index floor(r*(i+1)) proved in range for "
                "0 <= r < 1 over the reals), never adds/removes layer names, touches only the current key; syntactic "
                "obligations on the real source: it reads only the seed, the registered tests and the random stream, and visits the "
                "layers in sorted name order; features are configured Find < Shuffle < SubProcess < Filter < Listing; the seed "
                "is reported and handed to children; get_options keeps the search directories in command-line order "
                "(--test-path entries, then --path entries; none dropped or merged), so 'the same discovered tests' does not "
                "depend on string hashing.",
        'note': COMMON_NOTE + "Assumed: A-FLOAT (floats as reals), random.Random(seed).random() is a function of seed and "
                "position (stdlib guarantee); sorted(items) is a permutation of the items. Reproducibility across real "
                "processes is bounded (native oracle).",
    },
    'C15': {
        'text': "Proof: call-site obligations at os.unlink (the file is an entry of the visited directory's file list, its "
                "name ends with .pyc/.pyo, the same-named .py is not in that list, the path is join(dirname, file), "
                "--keepbytecode is off), completeness and soundness invariants per directory (every orphan among the files "
                "seen is unlinked; only such orphans are), nothing unlinked under --keepbytecode; string-level leaf lemmas "
                "(file[-4:] == '.pyc' <=> endswith; file[:-1] is the same-named .py) proved in the z3 sequence theory; "
                "get_options tail: --usecompiled implies --keepbytecode; the clean-up prunes nothing but __pycache__ from the walk "
                "(contract on the pruning statement + frame: `dirs` is changed nowhere else), so every other directory the walk "
                "offers is searched.",
        'note': COMMON_NOTE + "Assumed: walk_with_symlinks/os.walk semantics incl. in-place pruning of __pycache__ and ignored "
                "directories; os.unlink removes exactly its argument.",
    },
    'C17': {
        'text': "Proof of the counting invariant: XMLOutputFormattingWrapper._record appends exactly one test case per "
                "recorded result and keeps, per suite, errors == number of cases with an error and failures == number of "
                "cases with a failure (counts are specification functions defined by recursion over the list); the case "
                "carries a failure / an error iff one was passed. Syntactic obligations on the real source: each of "
                "test_success/test_failure/test_error records once; writeXMLReports takes the attributes from these "
                "counters, writes one testcase per case, and passes every attribute and text through xml_safe; the recording entry "
                "points (test_failure / test_error / test_success / import_errors) record exactly once with their own failure "
                "/ error; the test-case loop of writeXMLReports appends one testcase per case, an error / failure child "
                "exactly for the cases carrying one, and raises nothing (str(exc) may be empty); xml_safe leaves only XML "
                "Chars (complete enumeration of all code points on the real pattern); Runner.run writes the reports exactly "
                "once, after the teardown, iff --xml; nothing in the shared report directory is deleted or renamed; the doc-file / "
                "doctest / manuel / start-up-failure name parsers that _record tries before parse_unittest return a complete "
                "name or none at all and raise nothing, wherever the doc file lies relative to the current directory "
                "(filename_to_suite_name_parts: never None, the file name is kept -- the assumed parser contract of _record "
                "is discharged on the real bodies). ElementTree serialisation is bounded (native oracle).",
        'note': COMMON_NOTE + "Assumed: ElementTree serialisation; the invariant holds for suite infos stored earlier "
                "(induction over the call history, _record is the only mutation site).",
        'category': 'proof',
    },
    'C18': {
        'text': "Proof: for gc thresholds, gc debug flags, the traceback functions and the sys/threading trace hooks the "
                "feature's global_setup saves exactly the current ghost value and its teardown (TestTrace.stop for coverage) "
                "writes that value back; Runner.run: once the test phase has begun (ghost flag set where the try is entered) "
                "every feature has had early_teardown and global_teardown on every exit (normal, exception, "
                "KeyboardInterrupt), teardown only after all set-ups; sys.stdout/sys.stderr: stopTest restores on every "
                "protocol path (C13 contracts). Syntactic: the test phase is the body of the try/finally; warnings are "
                "changed only inside catch_warnings(); --profile: late_setup / early_teardown are enable / disable of one and "
                "the same profiler object (bound once, after the profiler is created).",
        'note': COMMON_NOTE + "Assumed: gc/sys/threading/traceback functions read/write exactly the modelled state; "
                "teardown methods do not raise; tests do not change these globals themselves; cProfile's enable/disable "
                "pair (stdlib) and the composition over concrete option subsets are bounded (native oracle).",
    },
    'C19': {
        'text': "Proof of the report computation: at the test_threads call site new_threads is non-empty and contains "
                "exactly the threads of the end snapshot that are alive, not in the start snapshot and match no ignore "
                "pattern (re.match), by a loop invariant over the real loop; startTest and the addSkip fallback take the "
                "start snapshot -- afresh, in this call (ghost snapshot counter), never one left over from an earlier test; stopTest "
                "takes the end snapshot and makes the report exactly when it holds a thread that is alive, not in the start "
                "snapshot and not ignored, once (soundness and completeness); threadsupport.enumerate: one proxy per ident of "
                "sys._current_frames().",
        'note': COMMON_NOTE + "Assumed: threadsupport.enumerate()/sys._current_frames list exactly the running threads; "
                "identity by ident (known finding: ident reuse within one test).",
    },
    'C20': {
        'category': 'exploration',
        'technique': "mixed, labelled per claim: (proved, contract-based deductive verification of the real iterative Tarjan "
                     "loop by pyvc/z3) the enumeration raises nothing on any graph and its components PARTITION the node set "
                     "(every node popped from the Tarjan stack into exactly one component, stack empty at the end), and the "
                     "default-mode filter yields exactly the components with > 1 node or a self-loop; (bounded stand-in, NOT "
                     "proved) that each component is a strongly connected component: run-time contract against an "
                     "independent Warshall-closure oracle, exhaustive over small digraphs and seeded random graphs",
        'text': "Two contracts on the real DiGraph.sccs. (1) Whole function, 3 nested loops, 179 obligations: with ghost maps for "
                "the _TarjanState objects and a ghost list of return-marker positions the invariants 'node is unvisited xor "
                "has a state', 'stacked flag == membership in the stack', 'on the stack xor already in a component', 'stack "
                "and ancestor path ordered by dfs number', 'no low-link below the root of the current tree' are inductive; "
                "hence no KeyError / IndexError / StopIteration / AssertionError for ANY graph, every node is appended to "
                "exactly one component (call-site obligation: not in a component before), the root of every DFS tree closes "
                "its component so the stack is empty when the loop ends, and at the end every node of the graph is in a "
                "component: the yielded components partition the nodes. (2) Fragment: the default-mode filter block skips a "
                "component iff it is a single node without self-loop and otherwise yields it once with exactly its nodes. (3) Ownership "
                "of the representation, decided on the AST: every neighbour set stored by add_neighbors and everything "
                "_transform_nodes returns is created inside the call (no aliasing with the caller's set or another node's). "
                "BOUNDED, not proved: that each component is strongly connected and maximal (Tarjan's low-link argument) -- "
                "explored exhaustively for all digraphs with self-loops on <= 3 nodes in all insertion orders, all 65536 on 4 "
                "nodes, seeded random graphs on 5-9 nodes, hashable and id()-keyed nodes, edges to unknown nodes, nodes "
                "without add_neighbors, against a reachability-closure oracle. The evidence level stays 'exploration' because "
                "the first sentence of the property is only partly proved.",
        'note': "Trusted for the proofs: pyvc, z3; neighbour sets abstracted to membership + iteration over their members; "
                "class invariant of DiGraph (neighbours are nodes of the graph) and 'the return marker is not a node' as "
                "preconditions; _untransform_node total on graph nodes. Strong connectivity / maximality beyond the explored "
                "bound is NOT decided.",
        'explanation': "exploration of the real DiGraph.sccs against a Warshall oracle; the proof obligations listed under "
                       "obligations/discharged are the partition / no-exception contract of the whole loop and the filter fragment",
    },
    'C10': {
        'text': "Proof: order_by_bases returns a duplicate-free list of exactly the given layers in which no layer precedes "
                "one of its bases, and (second contract on the same function) the unit-test layer first whenever it is "
                "present: the real sort key layer_sort_key (with its self-referencing nested _gather, verified as a "
                "recursive unit) yields () exactly for the unit-test layer and otherwise a tuple ending in the layer's own "
                "name, so the reverse sort puts the unit layer last, the reversal first; Runner.ordered_layers (what both "
                "the run loop and --list-tests iterate) yields exactly one group per registered layer name, in that order. "
                "'Depends only on the set of layers': syntactic obligations on the real source (the ordering functions read "
                "only their argument, __bases__ and name_from_layer; no global / nonlocal / default-argument state) plus "
                "keys ending in the layer's own (distinct) name; determinism of sorted() for pairwise distinct keys is the "
                "stdlib contract. Bounded oracle: all DAGs x namings x discovery orders x hash seeds within its bound.",
        'note': COMMON_NOTE + "Assumed: sorted() orders by key and is a function of the multiset when keys are pairwise "
                "distinct; tuples order lexicographically (() least); distinct layers have distinct names; two registered "
                "names never denote the same layer object; class UnitTests has no base but object (checked on layer.py).",
    },
    'C03': {
        'text': "Proof, function by function, of the selection chain: tests_from_suite yields exactly FLAT(suite) (the tests "
                "whose nearest level is eligible and which --test accepts, each with its nearest layer, in order, for suite "
                "trees of any depth); find_tests places every pair of FLAT(suite_1) ++ ... ++ FLAT(suite_k) exactly once, in "
                "that order, into the suite registered under the pair's own layer name (fresh suite per name, no empty "
                "suite; ghost placement log, call-site obligations at suite.addTest); Filter.global_setup keeps exactly the "
                "layer names the unit switch and the --layer patterns select (in a child: only the resumed layer) and never "
                "touches the suites; Runner.ordered_layers yields one group per registered name, once each; the run loop "
                "executes the tests of a suite in order, one call each per --repeat iteration (call-site obligation "
                "test == suite_item(tests, i) in run_tests), runs every yielded layer unless stopped on purpose; the listing "
                "iterates the same ordered_layers() and passes each group to the formatter; Listing.global_setup clears "
                "do_run_tests and Runner.run calls run_tests only under it (no test or layer code under --list-tests); a "
                "child is started with --resume-layer <name>, the parent's defaults and its original arguments, in the directory the "
                "run was started from (run_internal -> Runner.__init__ -> resume_tests -> Thread -> Popen(cwd=...), one call-site "
                "clause per link), and finds its layer by the parent's name (name_from_layer / layer_from_name over the name cache, "
                "which Runner.run empties first).",
        'note': COMMON_NOTE + "Not decided: that a child process discovers the same files (OS); that user code does not run a "
                "test itself; 'exactly one process' rests on Filter's child post (only the resumed layer) plus the run "
                "loop handing each remaining layer to exactly one spawn (resume_tests: see C06). Assumed: two registered "
                "names never denote the same layer object; generator consumed as its completed result list.",
    },
    'C06': {
        'text': "Proof for sentences 2 and 3 (output order, at most N alive, up to N in progress), for EVERY sequence of "
                "is_alive()/done observations the OS scheduler can produce: resume_tests is executed symbolically with the "
                "observations arbitrary under a stated rely (a thread observed dead stays dead; a dead thread's result is "
                "done; done is monotone). Discharged: one thread per layer wired to the result of the same index, "
                "consecutive resume numbers; a thread is started once and only into a free slot (len(running) < N at "
                "thread.start()); every started thread not observed dead occupies a slot of running_threads (so at most N "
                "children are alive); after the start loop all N slots are taken or nothing waits; the reverse-index reap "
                "loop deletes exactly the threads observed dead; at stdout.writelines the block is results[printed], seen "
                "done, written whole; at exit printed == number of layers (each block exactly once, in sequential order). "
                "The rely's R2 is the proved 'result.done = True in the outermost finally' of spawn_layer_in_subprocess. "
                "The result collectors keep every line of a child in order except keep-alive lines (one activity mark each), "
                "and the real _is_dots pattern accepts exactly: dots followed by a line end (language equality proved in z3's "
                "regular-expression theory). "
                "Sentence 1 (a -j N run equals the sequential run) is NOT a postcondition of any function: it is covered only "
                "as the composition C03 (same selection per child) + C07 (lossless transfer) + C12 (sums), and by the "
                "bounded oracle with real -j runs.",
        'note': COMMON_NOTE + "Assumed: the rely R1-R3; threading.Thread/queue.Queue stdlib behaviour; a test's outcome does "
                "not depend on the process it runs in (sentence 1). The final counting step (members of a list of length "
                "<= N are at most N threads) is outside SMT. Liveness (the loop terminates) is not decided.",
    },
    'C14': {
        'text': "Proof of the per-directory decision and of the plumbing around it: find_test_files_ (real nested loops and "
                "the inlined closure update_root2ext) prunes dirs in place to exactly the identifier-named, non-ignored "
                "ones; at the yield statement the path is join(dirname, f) for a file f of that directory whose stem matches "
                "the tests pattern or -- inside a package directory that itself matches it and holds an __init__ -- the "
                "test-file pattern; every such file's stem has its winner yielded; the paths of one directory come out "
                "sorted; find_test_files yields each path of that stream at its first occurrence only (once, however the "
                "search paths overlap); find_suites calls import_name only with a module name the --module filter has "
                "accepted (ghost set of imported modules) and turns import / test_suite errors into StartUpFailure (only "
                "KeyboardInterrupt leaves); test_dirs yields the search paths, or with --package only package paths under "
                "a search prefix, each once; get_options sorts the prefixes longest first; strip_py_ext and "
                "contains_init_py against their specifications.",
        'note': COMMON_NOTE + "Assumed: os.walk / walk_with_symlinks enumerate the tree top-down, sort dirs and files and "
                "honour in-place pruning (the traversal itself is not verified); os.path functions and regular "
                "expressions are pure; the internal assert in find_suites is not decided. Sortedness across directories "
                "follows from the sorted walk (assumed).",
    },
}
