"""Which functions (under which sidecar) carry which property; bounded parts; level texts."""

L, RR, RUN = 'runner_layers', 'runner_result', 'runner_run'
TR = 'runner.TestResult.'
LAYER_FNS = [(L, 'runner.gather_layers'), (L, 'runner.order_by_bases'), (L, 'runner.setup_layer'),
             (L, 'runner.tear_down_unneeded'), (L, 'runner.run_layer')]
EVENTS = [(RR, TR + m) for m in ('addError', 'addFailure', 'addUnexpectedSuccess', 'addSubTest', 'addSuccess',
                                 'addExpectedFailure', 'addSkip')]
PROTOCOL = (RR, 'unittest_protocol.case_run')
RUN_TESTS = (RR, 'runner.run_tests')
RUNNER_LOOP = (RUN, 'runner.Runner.run_tests')

# property -> list of (sidecar, function).  Every obligation generated for these functions is an obligation
# of the property's check (contracts are shared between properties: a callee's contract carries several).
FUNCTIONS = {
    'C01': LAYER_FNS + [RUNNER_LOOP],
    'C02': [(L, 'runner.handle_layer_failure'), (L, 'runner.tear_down_unneeded'), (L, 'runner.run_layer'),
            RUN_TESTS, RUNNER_LOOP],
    'C04': [(L, 'runner.setup_layer'), (L, 'runner.tear_down_unneeded'), (L, 'runner.run_layer'),
            (L, 'runner.handle_layer_failure'), (RR, TR + '_restoreStdStreams'), (RR, TR + 'startTest'),
            (RR, TR + 'stopTest')] + EVENTS + [PROTOCOL, RUN_TESTS, RUNNER_LOOP],
    'C05': [(L, 'runner.gather_layers'), (L, 'runner.order_by_bases'), (RR, TR + '__init__'), (RR, TR + 'testSetUp'),
            (RR, TR + 'testTearDown'), (RR, TR + 'startTest'), (RR, TR + 'stopTest'), (RR, TR + 'addSkip'), PROTOCOL],
    'C08': [('filter_c08', 'filter.build_filtering_func')],
    'C12': [(RR, TR + 'startTest'), (RR, TR + 'addSkip'), PROTOCOL, RUN_TESTS],
    'C13': [(RR, TR + '__init__'), (RR, TR + '_setUpStdStreams'), (RR, TR + '_restoreStdStreams'),
            (RR, TR + 'startTest'), (RR, TR + 'stopTest')] + EVENTS + [PROTOCOL, RUN_TESTS],
    'C16': [(RR, TR + m) for m in ('addError', 'addFailure', 'addUnexpectedSuccess', 'addSubTest')]
           + [PROTOCOL, RUN_TESTS, RUNNER_LOOP],
    'C19': [(RR, TR + 'startTest'), (RR, TR + 'addSkip'), (RR, TR + 'stopTest')],
}

NATIVE = {p: p.lower() for p in ['C%02d' % i for i in range(1, 21)]}
NATIVE_BUDGET = {'quick': 20, 'thorough': 180}
HOOK_COMMITS = []

COMMON_NOTE = ("Trusted: the VC generator pyvc itself (mitigated by canaries, mutation self-tests, the loop frame check); "
               "z3/cvc5; CPython semantics of the interpreted subset as encoded (ints mathematical, identity equality of "
               "layers/tests, no aliasing between distinct container parameters); assumed contracts of builtins, stdlib and "
               "formatter methods listed in evidence.assumptions / coverage.abstractions_applied. ")

MANIFEST = {
    'C01': {
        'text': "Proof: every obligation generated from the current source of gather_layers, order_by_bases, setup_layer, "
                "tear_down_unneeded, run_layer and Runner.run_tests is discharged, for all layer DAGs, all sets of set-up "
                "layers and all placements of raising hooks: call-site obligations at layer.setUp() (not set up, all bases set "
                "up, no refused tearDown before), at layer.tearDown() (set up, nothing derived still set up) and at the "
                "test-execution site (set-up set == layer + transitive bases), the key leaves setup_layers on every path after "
                "its tearDown attempt, CanNotTearDown only when not optional, nothing left set up when Runner.run_tests "
                "returns, no run_layer after a refused tearDown. A bounded oracle on the real Runner replays failures.",
        'note': COMMON_NOTE + "Assumed: hook contracts (return or raise; cannot reach setup_layers), acyclic __bases__; "
                "in a child process at most the resumed layer is registered (post of Filter.global_setup); a spawned child "
                "starts with nothing set up (OS); 'tearDown attempted exactly once' is proved as 'the key is removed on every "
                "path right after the single tearDown call site', not over a ghost event log.",
    },
}
