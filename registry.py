"""Which functions (under which sidecar) carry which property; bounded parts; level texts."""

# property -> list of (sidecar, function).  Every obligation generated for these functions is an obligation
# of the property's check (contracts are shared between properties: a callee's contract carries several).
FUNCTIONS = {
    'C01': [('runner_layers', f) for f in (
        'runner.gather_layers', 'runner.order_by_bases', 'runner.setup_layer', 'runner.tear_down_unneeded',
        'runner.run_layer')],
}

# vocabulary lemmas proved once per engine are counted with every property that loads the vocabulary
NATIVE = {p: p.lower() for p in ['C%02d' % i for i in range(1, 21)]}

NATIVE_BUDGET = {'quick': 20, 'thorough': 180}

HOOK_COMMITS = []

COMMON_NOTE = ("Trusted: the VC generator pyvc itself (mitigated by canaries, mutation self-tests, CPython cross-check); "
               "z3/cvc5; CPython semantics of the interpreted subset as encoded (ints mathematical, identity equality of "
               "layers/tests, no aliasing between distinct container parameters); assumed contracts of builtins, stdlib and "
               "formatter methods listed in evidence.assumptions / coverage.abstractions_applied. ")

MANIFEST = {
    'C01': {
        'text': "Proof: every obligation generated from the current source of gather_layers, order_by_bases, setup_layer, "
                "tear_down_unneeded and run_layer is discharged, for all layer DAGs, all sets of set-up layers and all "
                "placements of raising hooks: call-site obligations at layer.setUp() (not set up, all bases set up, no refused "
                "tearDown before), at layer.tearDown() (set up, nothing derived still set up) and at the test-execution site "
                "(set-up set == layer + transitive bases), the key leaves setup_layers on every path after its tearDown attempt, "
                "CanNotTearDown only when not optional. A bounded oracle on the real Runner (small layer worlds) replays failures.",
        'note': COMMON_NOTE + "Assumed: hook contracts (return or raise; cannot reach setup_layers), acyclic __bases__; "
                "Runner.run_tests loop and the function run_tests are under contract in C02/C16 checks; a spawned child starts "
                "with nothing set up (OS).",
    },
}
