"""Entry point of every check:  python3-vt check.py <PROPERTY> [--tier quick|thorough] | --replay FILE

exit 0  every obligation generated from /repo's current source discharged (known findings listed, not counted)
exit 1  VIOLATION property=<id> replay=<path>   (an obligation failed / the bounded oracle found a failing input)
exit 2  undecided (contract key does not resolve, baseline obligation vanished, auxiliary proof step broken)
exit 3  checker limit (unsupported construct, vacuous hypotheses, internal error)
"""
import argparse
import json
import multiprocessing
import os
import subprocess
import sys
import time
import traceback

HERE = os.path.dirname(os.path.abspath(__file__))
OUT = os.environ.get('VERIF_OUT', 'out')      # parallel seeded-mutant runs use one output directory each
sys.path.insert(0, HERE)
REPO_SRC = os.environ.get('VERIF_REPO_SRC') or os.path.join(os.environ.get('VERIF_REPO_ROOT', '/repo'), 'src/zope/testrunner')

import registry                                         # noqa: E402
from pyvc.verify import Engine                          # noqa: E402
from pyvc.state import Unsupported, ContractError, smtlib_of, _pool_job   # noqa: E402

PROPERTY_KINDS = ('post', 'exc-post', 'raises-only', 'callsite', 'pre', 'safe', 'lemma', 'syntactic')


def load_known():
    p = os.path.join(HERE, 'known_findings.json')
    if os.path.exists(p):
        return json.load(open(p))
    return []


class Ob:
    """picklable summary of an obligation"""
    __slots__ = ('oid', 'function', 'kind', 'text', 'path', 'line', 'status', 'backend', 'time', 'detail')

    def __init__(self, ob):
        for k in self.__slots__:
            setattr(self, k, getattr(ob, k))


def gen_one(task):
    side, fn = task
    out = {'fn': fn, 'side': side, 'obs': [], 'info': None, 'problem': None, 'assumptions': [], 'ledger': {},
           'trusted': []}
    t0 = time.time()
    try:
        E = Engine(REPO_SRC)
        E.jobs = 1
        E.load_sidecar(os.path.join(HERE, 'contracts', side + '.py'))
    except Exception as e:
        out['problem'] = (3, 'sidecar %s failed to load: %r' % (side, e))
        return out
    try:
        if fn is None:            # the lemmas of the vocabulary (proved when the sidecar loads)
            for ob in E.lemma_obligations:
                ob.function = 'lemma(%s)' % side
                out['obs'].append((Ob(ob), None))
            return out
        fobs = E.verify_generate(fn)
        ax = E.all_axioms()
        for ob in fobs:
            out['obs'].append((Ob(ob), None if ob.status is not None else smtlib_of(ax, ob.hyps, ob.goal)))
        info = E.function_info(fn)
        info.update(paths=E.last_paths, merged_paths=E.stats.get('merged', 0), obligations=len(fobs),
                    gen_s=round(time.time() - t0, 2))
        out['info'] = info
    except ContractError as e:
        out['problem'] = (2, '%s: %s' % (fn, e))
    except Unsupported as e:
        out['problem'] = (3, '%s: unsupported construct: %s' % (fn, e))
    except Exception as e:
        out['problem'] = (3, '%s: internal error: %r\n%s' % (fn, e, traceback.format_exc()[-1500:]))
    out['trusted'] = [k for k, c in E.contracts.items() if c.trusted]
    out['assumptions'] = list(E.assumptions)
    led = E.ledger.get(fn)
    if led:
        out['ledger'] = {fn: {'interpreted_nodes': sorted(led['interpreted']),
                              'abstraction_rules': ['line %s: %s  =>  %s' % r for r in led['rules']]}}
    return out


def generate(prop):
    """symbolic execution of every function of the property (one process each)"""
    tasks = list(registry.FUNCTIONS.get(prop, []))
    sides = []
    for side, _ in tasks:
        if side not in sides:
            sides.append(side)
    tasks = [(side, None) for side in sides] + tasks
    with multiprocessing.get_context('fork').Pool(min(16, max(1, len(tasks)))) as pool:
        res = pool.map(gen_one, tasks, chunksize=1)
    obs, infos, problems, assumptions, ledgers = [], [], [], [], {}
    verified = [fn for _, fn in tasks if fn]
    seen_lemmas = set()
    for r in res:
        for ob, txt in r['obs']:
            if ob.kind in ('lemma', 'syntactic'):
                if ob.oid in seen_lemmas:
                    continue
                seen_lemmas.add(ob.oid)
            obs.append((ob, txt))
        if r['info']:
            infos.append(r['info'])
        if r['problem']:
            problems.append(r['problem'])
        assumptions += r['assumptions']
        for k in r['trusted']:
            if k not in verified:
                assumptions.append("assumed contract (body verified in another check or trusted): %s" % k)
        ledgers.update(r['ledger'])
    return obs, infos, problems, sorted(set(assumptions)), ledgers


def discharge_all(obs, timeout_ms):
    work, idx = [], []
    for n, (ob, txt) in enumerate(obs):
        if txt is not None:
            if ob.kind == 'canary':
                work.append((txt, 1500, False))
            else:
                work.append((txt, timeout_ms, True))
            idx.append(n)
    if work:
        with multiprocessing.get_context('fork').Pool(min(16, len(work))) as pool:
            res = pool.map(_pool_job, work, chunksize=1)
        for n, r in zip(idx, res):
            ob = obs[n][0]
            ob.status, ob.backend, ob.detail, ob.time = r


def _second_job(txt):
    from pyvc.state import run_z3_cli, run_cvc5
    r = run_z3_cli(txt, 10)
    if r not in ('unsat', 'sat'):
        r2 = run_cvc5(txt, 10)
        if r2 in ('unsat', 'sat'):
            return 'cvc5:' + r2
    return 'z3-4.8.12:' + r


def second_opinion(obs):
    """thorough tier: every obligation discharged by the in-process z3 5.1 is given to an independent solver binary
    (z3 4.8.12, then cvc5 1.0.3 when that is undecided); a `sat` there against our `unsat` is a checker alarm"""
    work = [(n, txt) for n, (ob, txt) in enumerate(obs) if txt is not None and ob.status == 'proved' and ob.kind != 'canary']
    res = {'checked': len(work), 'agree': 0, 'undecided_by_second_solver': 0, 'disagree': []}
    if not work:
        return res
    with multiprocessing.get_context('fork').Pool(16) as pool:
        outs = pool.map(_second_job, [t for _, t in work], chunksize=4)
    for (n, _), r in zip(work, outs):
        if r.endswith(':unsat'):
            res['agree'] += 1
        elif r.endswith(':sat'):
            res['disagree'].append({'obligation': obs[n][0].oid, 'path': obs[n][0].path, 'second': r})
        else:
            res['undecided_by_second_solver'] += 1
    return res


def seeded_selftest(prop):
    """thorough tier: the stored seeded changes of this property are applied to scratch worktrees of the current /repo HEAD
    and the quick check is run against each; a change that is no longer detected is reported (it does not change the
    verdict about /repo itself)"""
    sd = os.path.join(HERE, 'seeded')
    ids = sorted(d for d in os.listdir(sd) if d.startswith(prop + '-')) if os.path.isdir(sd) else []
    out = {'changes': ids, 'detected': [], 'not_detected': [], 'not_applicable': []}
    for sid in ids:
        wt = '/tmp/selftest_%s_%d' % (sid, os.getpid())
        p = subprocess.run(['git', '-C', '/repo', 'worktree', 'add', '--detach', wt, 'HEAD'], capture_output=True, text=True)
        if p.returncode != 0:
            out['not_applicable'].append(sid)
            continue
        try:
            p = subprocess.run(['git', '-C', wt, 'apply', os.path.join(sd, sid, 'patch.diff')], capture_output=True, text=True)
            if p.returncode != 0:
                out['not_applicable'].append(sid)         # the patch no longer applies to the current tree
                continue
            env = dict(os.environ, VERIF_REPO_ROOT=wt, VERIF_OUT='out/selftest/' + sid, VERIF_TIER='quick',
                       VERIF_EVIDENCE_DIR=os.path.join(HERE, 'out', 'evidence_selftest', sid))
            p = subprocess.run([sys.executable, os.path.join(HERE, 'check.py'), prop, '--tier', 'quick'], cwd=HERE, env=env,
                               capture_output=True, text=True, timeout=1500)
            (out['detected'] if p.returncode == 1 else out['not_detected']).append(sid)
        except subprocess.TimeoutExpired:
            out['not_detected'].append(sid)
        finally:
            subprocess.run(['git', '-C', '/repo', 'worktree', 'remove', '--force', wt], capture_output=True)
    return out


def start_native(prop, tier, seed):
    mod = registry.NATIVE.get(prop)
    if not mod or not os.path.exists(os.path.join(HERE, 'native', mod + '.py')):
        return None
    budget = registry.NATIVE_BUDGET[tier]
    cmd = ['/venv/bin/python', os.path.join(HERE, 'native', 'run.py'), prop, '--budget', str(budget),
           '--seed', str(seed), '--tier', tier]
    out = open(os.path.join(HERE, OUT, 'tmp', 'native_%s.out' % prop), 'w+')
    p = subprocess.Popen(cmd, stdout=out, stderr=subprocess.STDOUT, text=True, cwd=HERE, start_new_session=True)
    return p, out, budget


def finish_native(job):
    p, out, budget = job
    try:
        p.wait(timeout=budget * 3 + 120)
    except subprocess.TimeoutExpired:
        try:
            os.killpg(p.pid, 9)
        except Exception:
            p.kill()
        return {'error': 'bounded oracle timed out', 'findings': []}
    out.seek(0)
    text = out.read()
    out.close()

    class P:
        stdout = text
        stderr = ''
    p = P()
    for line in p.stdout.splitlines():
        if line.startswith('@@RESULT@@'):
            return json.loads(line[len('@@RESULT@@'):])
    return {'error': 'bounded oracle crashed: ' + (p.stderr or p.stdout)[-2000:], 'findings': []}


def main():
    ap = argparse.ArgumentParser()
    ap.add_argument('prop', nargs='?')
    ap.add_argument('--tier', default=os.environ.get('VERIF_TIER', 'quick'))
    ap.add_argument('--replay')
    ap.add_argument('--update-baseline', action='store_true')
    ap.add_argument('--no-native', action='store_true')
    a = ap.parse_args()
    if a.replay:
        return do_replay(a.replay)
    prop = a.prop
    tier = a.tier if a.tier in ('quick', 'thorough') else 'quick'
    seed = int(os.environ.get('VERIF_SEED', '0') or 0)
    t0 = time.time()
    os.makedirs(os.path.join(HERE, OUT, 'replay'), exist_ok=True)
    os.makedirs(os.path.join(HERE, OUT, 'tmp'), exist_ok=True)
    os.environ['PYVC_TMP'] = os.path.join(HERE, OUT, 'tmp')
    os.makedirs(os.path.join(HERE, 'evidence'), exist_ok=True)

    native_job = None if a.no_native else start_native(prop, tier, seed)
    obs, infos, problems, assumptions, ledgers = generate(prop)
    timeout_ms = 10000 if tier == 'quick' else 30000
    discharge_all(obs, timeout_ms)
    second = None
    if tier == 'thorough':
        second = second_opinion(obs)
        if second['disagree']:
            problems.append((3, 'SOLVER DISAGREEMENT (in-process z3 says unsat, the second solver sat) on %s'
                             % [d['obligation'] for d in second['disagree'][:5]]))
    native = None if native_job is None else finish_native(native_job)
    selftest = None
    if tier == 'thorough' and not os.environ.get('VERIF_REPO_ROOT') and not a.no_native:
        selftest = seeded_selftest(prop)

    # ---- aggregate per obligation id
    agg = {}
    for ob, _ in obs:
        g = agg.setdefault(ob.oid, {'kind': ob.kind, 'text': ob.text, 'function': ob.function, 'n': 0, 'ok': 0,
                                    'time': 0.0, 'backends': {}, 'bad': []})
        g['n'] += 1
        g['time'] += ob.time
        if ob.status == 'proved':
            g['ok'] += 1
            g['backends'][ob.backend] = g['backends'].get(ob.backend, 0) + 1
        else:
            g['bad'].append({'status': ob.status, 'path': ob.path, 'line': ob.line, 'solver': ob.detail[:3000]})
    base_path = os.path.join(HERE, 'baseline', prop + '.json')
    shapes = {i['function']: {'loops': i.get('loops', ''), 'params': i.get('params', [])} for i in infos}
    if a.update_baseline:
        os.makedirs(os.path.dirname(base_path), exist_ok=True)
        json.dump(shapes, open(base_path[:-5] + '.shapes.json', 'w'), indent=1, sort_keys=True)
        # 'safe' obligations are opportunistic (a side condition proved on the spot; otherwise the raising path is explored
        # and must satisfy the function's exceptional contract): they are not part of the baseline
        json.dump(sorted(k for k, g in agg.items() if g['kind'] not in ('canary', 'safe') and g['ok'] == g['n']),
                  open(base_path, 'w'), indent=1)
    baseline = set(json.load(open(base_path))) if os.path.exists(base_path) else set()

    sp = base_path[:-5] + '.shapes.json'
    base_shapes = json.load(open(sp)) if os.path.exists(sp) else {}
    # functions whose loop structure or signature differs from the one the contracts were written for
    drifted = {fn for fn, sh in shapes.items() if fn in base_shapes and base_shapes[fn] != sh}
    known = [k for k in load_known() if k.get('property') == prop and k.get('status', 'known') == 'known']
    known_obl = {o for k in known for o in k.get('obligations', [])}
    known_keys = {k['key'] for k in known if k.get('key')}

    lines, violations, undecided, limits, aux_broken = [], [], [], [], []
    for code, msg in problems:
        (undecided if code == 2 else limits).append(msg)
    canaries = [g for g in agg.values() if g['kind'] == 'canary']
    for oid, g in agg.items():
        if g['kind'] == 'canary':
            if g['ok']:
                limits.append('VACUOUS: hypotheses of %s are contradictory (canary "False" was proved)' % g['function'])
            continue
        if g['ok'] == g['n']:
            continue
        if oid in known_obl:
            continue
        if g['kind'] in PROPERTY_KINDS and g['function'] not in drifted:
            violations.append((oid, g))
        else:
            # an auxiliary step of the proof (loop invariant, variant): its failure means the PROOF no longer goes through --
            # which a behaviour-preserving refactoring can cause as well as a defect.  Undecided, unless the bounded oracle
            # finds a failing input on the real code (then the violation below carries that input).
            aux_broken.append((oid, g))
    for oid in sorted(o for o in baseline - set(agg) if '/safe[' not in o):
        undecided.append('baseline obligation vanished (contract drift): %s' % oid)

    native_new = []
    if native:
        for f in native.get('findings', []):
            if f.get('key') not in known_keys:
                native_new.append(f)

    for oid, g in aux_broken:
        if native_new:
            violations.append((oid, g))          # confirmed on the real code: reported with the oracle's failing input
        else:
            why = ('the loop structure / signature of %s differs from the one its contract was written for' % g['function']
                   if g['function'] in drifted else 'auxiliary proof step')
            undecided.append('PROOF-BROKEN obligation=%s (%s) %s; %s, no failing input found on the real code: property undecided'
                             % (oid, g['text'][:90], 'passed on the unchanged tree' if oid in baseline else 'not in the baseline', why))

    # ---- known findings: print one line each (confirmed by failing obligation and/or bounded oracle)
    for k in known:
        lines.append('KNOWN-FINDING: property=%s %s' % (prop, k['what']))

    # ---- violations -> replay files
    vio_lines = []
    n = 0
    for oid, g in violations:
        n += 1
        path = os.path.join(OUT, 'replay', '%s_%d.json' % (prop, n))
        repro = native_new[0] if native_new else None
        rec = {'property': prop, 'obligation': oid, 'function': g['function'], 'clause': g['text'],
               'failed_instances': g['bad'][:5], 'passed_on_baseline': oid in baseline,
               'source': 'deductive verifier (pyvc): obligation generated from the current /repo source not discharged',
               'case': repro['case'] if repro else None,
               'native_finding': repro,
               'replay': ('/venv/bin/python native/run.py %s --replay %s' % (prop, path)) if repro else None}
        json.dump(rec, open(os.path.join(HERE, path), 'w'), indent=1, default=str)
        tail = '' if repro else ' no-failing-input-found'
        vio_lines.append('VIOLATION property=%s replay=%s obligation=%s%s' % (prop, path, oid, tail))
    if not violations:
        for f in native_new:
            n += 1
            path = os.path.join(OUT, 'replay', '%s_%d.json' % (prop, n))
            rec = {'property': prop, 'obligation': None, 'source': 'bounded oracle on the real code (native/%s.py)' % prop.lower(),
                   'case': f['case'], 'native_finding': f,
                   'replay': '/venv/bin/python native/run.py %s --replay %s' % (prop, path)}
            json.dump(rec, open(os.path.join(HERE, path), 'w'), indent=1, default=str)
            vio_lines.append('VIOLATION property=%s replay=%s bounded-oracle key=%s' % (prop, path, f.get('key')))

    # ---- evidence
    counted = {k: g for k, g in agg.items() if g['kind'] != 'canary' and k not in known_obl}
    n_obl = len(counted)
    n_ok = sum(1 for g in counted.values() if g['ok'] == g['n'])
    backends = {}
    for g in agg.values():
        for b, c in g['backends'].items():
            backends[b] = backends.get(b, 0) + c
    samples = []
    for oid, g in list(counted.items())[:6]:
        samples.append({'obligation': oid, 'clause': g['text'], 'instances(paths)': g['n'], 'discharged': g['ok']})
    ev = {
        'property_id': prop, 'tier': tier, 'seed': seed,
        'level': registry.MANIFEST.get(prop, {}).get('category', 'proof'),
        'coverage': {
            # exploration-style keys: what the bounded oracle on the real code explored in this run (never counted as proved)
            'evaluations': int((native or {}).get('cases') or 0),
            'distinct_nontrivial': int((native or {}).get('distinct') or 0),
            'rule': (native or {}).get('rule') or 'no bounded oracle ran',
            'exhaustive': bool((native or {}).get('exhaustive')),
            'explanation': registry.MANIFEST.get(prop, {}).get('explanation', ''),
            'obligations': n_obl, 'discharged': n_ok,
            'obligation_instances': sum(g['n'] for g in counted.values()),
            'checker_cmd': 'python3-vt check.py %s --tier %s' % (prop, tier),
            'trusted_base': ['pyvc VC generator (this repository, /verif/pyvc)', 'z3 5.1.0 / z3 4.8.12 / cvc5 1.0.3',
                             'CPython semantics of the interpreted subset as encoded (DESIGN.md 2.3)'] + assumptions,
            'functions_under_contract': infos,
            'by_backend': backends,
            'solver_time_s': round(sum(g['time'] for g in agg.values()), 2),
            'canaries_not_provable': sum(1 for g in canaries if not g['ok']), 'canaries': len(canaries),
            'known_finding_obligations': sorted(known_obl & set(agg)),
            'abstractions_applied': ledgers,
            'samples': samples + [{'bounded_case': c} for c in (native or {}).get('samples', [])[:3]],
            'bounded_parts': ({'oracle': 'native/%s.py' % prop.lower(), 'label': 'bounded (never counted as proved)',
                               'cases': native.get('cases'), 'distinct': native.get('distinct'),
                               'rule': native.get('rule'), 'bound': native.get('bound'),
                               'exhaustive': native.get('exhaustive'), 'error': native.get('error'),
                               'findings': [f.get('key') for f in native.get('findings', [])],
                               'samples': native.get('samples', [])[:3]} if native else None),
            'undecided': undecided, 'checker_limits': limits,
            'second_solver': second, 'seeded_selftest': selftest,
        },
        'assumptions': assumptions,
        'wall_s': round(time.time() - t0, 2),
        'violations': len(vio_lines),
    }
    evdir = os.environ.get('VERIF_EVIDENCE_DIR') or os.path.join(HERE, 'evidence')   # seeded-mutant runs write elsewhere
    if a.no_native and not os.environ.get('VERIF_EVIDENCE_DIR'):
        evdir = os.path.join(HERE, 'out', 'evidence_dev')       # development runs never touch the committed evidence
    os.makedirs(evdir, exist_ok=True)
    json.dump(ev, open(os.path.join(evdir, prop + '.json'), 'w'), indent=1, default=str)

    for l in lines:
        print(l)
    if os.environ.get('VERIF_VERBOSE'):
        for oid, g in sorted(agg.items(), key=lambda kv: -kv[1]['time'])[:12]:
            print('  %.2fs %d/%d %s %s' % (g['time'], g['ok'], g['n'], oid, g['backends']))
    print('%s: %d/%d obligations discharged (%d instances), %d functions, %.1fs; backends %s'
          % (prop, n_ok, n_obl, ev['coverage']['obligation_instances'], len(infos), time.time() - t0, backends))
    if native:
        print('%s: bounded oracle: %s cases, findings=%s %s' % (prop, native.get('cases'),
              [f.get('key') for f in native.get('findings', [])], native.get('error') or ''))
    if vio_lines:
        for l in vio_lines:
            print(l)
        return 1
    if second:
        print('%s: second solver: %d of %d agree, %d undecided there, %d disagree'
              % (prop, second['agree'], second['checked'], second['undecided_by_second_solver'], len(second['disagree'])))
    if selftest:
        print('%s: seeded self-test: detected %s, not detected %s, patch not applicable %s'
              % (prop, selftest['detected'], selftest['not_detected'], selftest['not_applicable']))
    if limits:
        for l in limits:
            print('CHECKER-LIMIT: ' + l)
        return 3
    if native and native.get('error'):
        print('CHECKER-LIMIT: ' + native['error'])
        return 3
    if undecided:
        for l in undecided:
            print('UNDECIDED: ' + l)
        return 2
    if n_obl == 0:
        print('CHECKER-LIMIT: zero obligations generated')
        return 3
    return 0


def do_replay(path):
    rec = json.load(open(path))
    print(json.dumps({k: rec.get(k) for k in ('property', 'obligation', 'clause', 'source')}, indent=1))
    if rec.get('case') is None:
        print('no concrete input attached (no-failing-input-found); failed instances:')
        print(json.dumps(rec.get('failed_instances'), indent=1)[:4000])
        return 0
    p = subprocess.run(['/venv/bin/python', os.path.join(HERE, 'native', 'run.py'), rec['property'], '--replay', path],
                       cwd=HERE)
    return p.returncode


if __name__ == '__main__':
    sys.exit(main())
