"""Regenerate MANIFEST.json from registry.py (run: python3 tools/gen_manifest.py)."""
import json, os, sys
HERE = os.path.dirname(os.path.dirname(os.path.abspath(__file__)))
sys.path.insert(0, HERE)
import registry

props = [json.loads(l)['id'] for l in open(os.path.join(HERE, 'properties.jsonl'))]
checks, na = [], []
for p in props:
    m = registry.MANIFEST.get(p)
    if m is None or m.get('not_applicable'):
        na.append({'property_id': p, 'reason': (m or {}).get('not_applicable',
                   'check not built yet (work in progress, see DESIGN.md section 8 build order)')})
        continue
    checks.append({
        'property_id': p,
        'quick_cmd': './check %s --tier quick' % p,
        'thorough_cmd': './check %s --tier thorough' % p,
        'evidence_file': 'evidence/%s.json' % p,
        'replay_cmd_template': './check --replay {path}',
        'engine': 'pyvc',
        'level_claimed': {'category': m.get('category', 'proof'), 'text': m['text'], 'design_ref': m.get('design_ref', 'DESIGN.md section 5 ' + p)},
        'level_note': m['note'],
        'technique': m.get('technique', 'contract-based deductive verification: sidecar contracts on the real functions, '
                           'VCs generated from the AST of /repo source by pyvc, discharged by z3/cvc5'),
    })
man = {
    'version': 1,
    'setup_cmd': "python3-vt -c \"import z3; print('z3', z3.get_version_string())\" && test -x /usr/bin/cvc5 && test -x /usr/bin/z3 && test -x /venv/bin/python && mkdir -p out/replay out/tmp evidence",
    'hooks': {
        'guard': 'ZOPE_TESTRUNNER_VERIF',
        'enable': 'no hooks: the verifier parses /repo source text; replays and bounded oracles monkey-patch at run time',
        'baseline_off_cmd': 'cd /repo && /venv/bin/python -m pytest -ra -q -p no:cacheprovider --timeout=900 --continue-on-collection-errors',
        'source_commits': registry.HOOK_COMMITS,
        'add_only': True,
    },
    'engines': [
        {'name': 'pyvc', 'path': 'pyvc/', 'serves_properties': [c['property_id'] for c in checks],
         'kind_free_text': 'home-made VC generator: symbolic execution of the real function ASTs against sidecar contracts '
                           '(contracts/*.py), loops cut at invariants, calls cut at callee contracts; obligations discharged by '
                           'z3 5.1.0 (fresh context per query), z3 4.8.12 and cvc5 1.0.3 as fall-backs'},
        {'name': 'native', 'path': 'native/', 'serves_properties': [c['property_id'] for c in checks],
         'kind_free_text': 'bounded oracles running the real code under /venv/bin/python: replay of failed obligations, '
                           'bounded stand-ins (labelled bounded, never counted as proved), confirmation of known findings'},
    ],
    'checks': checks,
    'notes': 'see DESIGN.md; known_findings.json lists genuine defects recorded rather than repaired',
    'not_applicable': na,
}
missing = [p for p in props if p not in registry.MANIFEST]
assert not missing, 'registry.MANIFEST has no entry for %s (every property is claimed; a lost entry is an editing accident)' % missing
json.dump(man, open(os.path.join(HERE, 'MANIFEST.json'), 'w'), indent=1)
print('checks:', [c['property_id'] for c in checks], 'n/a:', len(na))
