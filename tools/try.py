"""dev helper: python3-vt tools/try.py <sidecar> <function> [repo_src]"""
import sys, time
sys.path.insert(0, '/verif')
from pyvc.verify import Engine
side, fn = sys.argv[1], sys.argv[2]
src = sys.argv[3] if len(sys.argv) > 3 else '/repo/src/zope/testrunner'
E = Engine(src, timeout_ms=int(__import__('os').environ.get('T', '10000')))
E.load_sidecar('/verif/contracts/%s.py' % side)
t = time.time()
obs = E.verify(fn)
agg = {}
for ob in obs:
    a = agg.setdefault(ob.oid, [0, 0, 0.0, ob.text, []])
    a[0] += 1
    if ob.status == 'proved':
        a[1] += 1
    else:
        a[4].append((ob.status, ob.path, ob.detail[:200]))
    a[2] += ob.time
for oid, (n, ok, tm, text, bad) in agg.items():
    flag = 'ok ' if n == ok else ('CANARY-OK' if 'canary' in oid and not ok else 'FAIL')
    if 'canary' in oid and ok:
        flag = 'CANARY-VACUOUS'
    print('%-14s %d/%d %.2fs %s :: %s' % (flag, ok, n, tm, oid, text[:90]))
    if flag == 'FAIL':
        for b in bad[:3]:
            print('      ', b)
print('total %.1fs' % (time.time() - t), E.stats)
for r in E.ledger.get(fn, {}).get('rules', []):
    print('  rule', r)
