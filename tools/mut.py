"""dev helper: apply a textual mutation to a scratch copy and run one function.
usage: mut.py <sidecar> <function> <file> <<< "OLD\n===\nNEW" """
import sys, os, shutil, subprocess
side, fn, fname = sys.argv[1:4]
old, new = sys.stdin.read().split('\n===\n')
new = new.rstrip('\n')
d = '/tmp/mut'
shutil.rmtree(d, ignore_errors=True); os.makedirs(d)
for f in os.listdir('/repo/src/zope/testrunner'):
    if f.endswith('.py'):
        shutil.copy('/repo/src/zope/testrunner/' + f, d)
s = open(d + '/' + fname).read()
assert s.count(old) == 1, s.count(old)
open(d + '/' + fname, 'w').write(s.replace(old, new))
env = dict(os.environ, T='4000')
r = subprocess.run(['python3-vt', '/verif/tools/try.py', side, fn, d], capture_output=True, text=True, env=env)
print('\n'.join(l for l in (r.stdout + r.stderr).splitlines() if not l.startswith(('ok ', '  rule', 'WARNING'))))
