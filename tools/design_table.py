"""Rewrite the seeded-change table of DESIGN.md (between the SEEDED-TABLE markers) from seeded/RESULTS.json."""
import json, os
V = os.path.dirname(os.path.dirname(os.path.abspath(__file__)))
rows = json.load(open(os.path.join(V, 'seeded', 'RESULTS.json')))
n = len(rows)
npr = sum(1 for r in rows if r['caught_by'] == 'proof obligation')
nor = sum(1 for r in rows if r['caught_by'] == 'bounded oracle')
out = ['**%d changes: %d caught by a named proof obligation, %d by the bounded oracle only, %d not caught.**' % (n, npr, nor, n - npr - nor), '',
       '| change | caught by | first failing obligation / oracle key | what was changed |', '|---|---|---|---|']
for r in rows:
    out.append('| %s | %s | `%s` | %s |' % (r['id'], r['caught_by'], r['first'][:90].replace('|', '/'),
                                           r['summary'][:110].replace('|', '/').replace('\n', ' ')))
p = os.path.join(V, 'DESIGN.md')
s = open(p).read()
a = s.index('<!-- SEEDED-TABLE-BEGIN -->') + len('<!-- SEEDED-TABLE-BEGIN -->')
b = s.index('<!-- SEEDED-TABLE-END -->')
open(p, 'w').write(s[:a] + '\n' + '\n'.join(out) + '\n' + s[b:])
print(n, npr, nor)
