"""Run every registered quick check on the unchanged tree; one line per property with its exit code.
usage: python3 tools/run_all.py [--update-baseline] [ids...]      exit 0 iff every check exits 0"""
import json, os, subprocess, sys, time
V = os.path.dirname(os.path.dirname(os.path.abspath(__file__)))
args = [a for a in sys.argv[1:] if not a.startswith('--')]
flags = [a for a in sys.argv[1:] if a.startswith('--')]
ids = args or [c['property_id'] for c in json.load(open(os.path.join(V, 'MANIFEST.json')))['checks']]
bad = 0
for p in ids:
    t = time.time()
    r = subprocess.run([os.path.join(V, 'check'), p] + flags, cwd=V, capture_output=True, text=True)
    lines = [l for l in r.stdout.splitlines() if l.startswith(p + ':')]
    alarms = [l for l in r.stdout.splitlines() if l.startswith(('VIOLATION', 'UNDECIDED', 'CHECKER-LIMIT', 'PROOF-BROKEN'))]
    print('%s exit=%d %3.0fs  %s' % (p, r.returncode, time.time() - t, (lines[0][len(p) + 2:] if lines else '')[:110]), flush=True)
    for l in alarms[:5]:
        print('      ' + l[:200], flush=True)
    bad += r.returncode != 0
sys.exit(1 if bad else 0)
