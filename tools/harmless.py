"""Run the checks against BEHAVIOUR-PRESERVING edits (false-alarm test).
usage: python3 tools/harmless.py <dir with ok*.diff> ...      results -> out/harmless/<name>.json, summary on stdout
For each diff: apply to a scratch worktree of /repo HEAD, find the functions whose source changed, run the quick check of
every property that has one of them under contract.  exit 1 there = a false alarm; 2 / 3 = undecided / checker limit."""
import ast, glob, json, os, subprocess, sys, time
V = os.path.dirname(os.path.dirname(os.path.abspath(__file__)))
sys.path.insert(0, V)
import registry


def funcs(path):
    out = {}
    try:
        src = open(path).read()
        tree = ast.parse(src)
    except Exception:
        return out
    mod = os.path.basename(path)[:-3]

    def visit(node, prefix):
        for ch in ast.iter_child_nodes(node):
            if isinstance(ch, (ast.FunctionDef, ast.ClassDef)):
                q = prefix + '.' + ch.name
                if isinstance(ch, ast.FunctionDef):
                    out[q] = ast.unparse(ch)
                visit(ch, q)
            elif isinstance(ch, (ast.If, ast.Try)):
                visit(ch, prefix)
    visit(tree, mod)
    return out


def sh(cmd, **kw):
    return subprocess.run(cmd, capture_output=True, text=True, **kw)


def main():
    os.makedirs(os.path.join(V, 'out', 'harmless'), exist_ok=True)
    diffs = []
    for d in sys.argv[1:]:
        diffs += sorted(glob.glob(os.path.join(os.path.abspath(d), 'ok*.diff')))
    for diff in diffs:
        name = os.path.basename(os.path.dirname(diff)).replace('seed_', '') + '_' + os.path.basename(diff)[:-5]
        wt = '/tmp/harmless_%s_%d' % (name, os.getpid())
        sh(['git', '-C', '/repo', 'worktree', 'add', '--detach', wt, 'HEAD'])
        try:
            base = {}
            for f in glob.glob(wt + '/src/zope/testrunner/*.py'):
                base.update(funcs(f))
            p = sh(['git', '-C', wt, 'apply', diff])
            if p.returncode:
                print(name, 'PATCH DOES NOT APPLY', p.stderr[:100])
                continue
            new = {}
            for f in glob.glob(wt + '/src/zope/testrunner/*.py'):
                new.update(funcs(f))
            changed = sorted(q for q in set(base) | set(new) if base.get(q) != new.get(q))
            props = sorted(p_ for p_, fl in registry.FUNCTIONS.items()
                           if any(fn.split('@')[0] == q or q.startswith(fn.split('@')[0] + '.') for _, fn in fl for q in changed))
            res = {}
            for p_ in props:
                env = dict(os.environ, VERIF_REPO_ROOT=wt, VERIF_OUT='out/harmless/' + name,
                           VERIF_EVIDENCE_DIR=os.path.join(V, 'out', 'harmless', name, 'evidence'))
                t = time.time()
                r = sh([os.path.join(V, 'check'), p_], cwd=V, env=env, timeout=1800)
                alarms = [l[:220] for l in r.stdout.splitlines() if l.startswith(('VIOLATION', 'UNDECIDED', 'CHECKER-LIMIT', 'PROOF'))]
                res[p_] = {'exit': r.returncode, 'alarms': alarms[:6], 'seconds': round(time.time() - t)}
            json.dump({'name': name, 'changed': changed, 'results': res}, open(os.path.join(V, 'out', 'harmless', name + '.json'), 'w'), indent=1)
            print(name, 'changed', changed, '->', {k: v['exit'] for k, v in res.items()}, flush=True)
            for k, v in res.items():
                if v['exit'] == 1:
                    for a in v['alarms'][:3]:
                        print('      FALSE ALARM?', k, a, flush=True)
        finally:
            sh(['git', '-C', '/repo', 'worktree', 'remove', '--force', wt])


if __name__ == '__main__':
    main()
