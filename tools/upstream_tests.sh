#!/bin/sh
# Runs upstream's own doctest/unit suite natively (needs the namespace bootstrap); prints the failing test names.
# Used only as a regression check for "fix:" commits: the set of failures must not grow.
cd /tmp && timeout 1200 /venv/bin/python -c "
import zope; zope.__path__.append('/venv/lib/python3.12/site-packages/zope')
from zope.testrunner import run_internal
r = run_internal(['--test-path', '/repo/src', '-s', 'zope.testrunner', '-v'], script_parts=['-c', 'import zope; zope.__path__.append(\'/venv/lib/python3.12/site-packages/zope\'); from zope.testrunner import run; run()'])
" 2>&1 | sed -n '/^  Ran /p;/^Tests with failures/,$p'
