"""Prompt for a fresh sub-agent that seeds property-breaking changes (round 3+: letters given on the command line).
The prompt contains the property text, the sandbox facts needed to run the real code, and one-line summaries of the
changes already stored for this property (so that the new ones use other mechanisms) -- nothing about /verif's checks.
usage: python3 tools/agent_prompt.py C07 E F   (also creates the scratch worktree /tmp/wt_C07 and /tmp/seed_C07)"""
import json, os, subprocess, sys
V = os.path.dirname(os.path.dirname(os.path.abspath(__file__)))


def prompt(prop, letters):
    p = [json.loads(l) for l in open(os.path.join(V, 'properties.jsonl')) if json.loads(l)['id'] == prop][0]
    prior = []
    for d in sorted(os.listdir(os.path.join(V, 'seeded'))):
        if d.startswith(prop + '-'):
            m = json.load(open(os.path.join(V, 'seeded', d, 'meta.json')))
            prior.append('- ' + m['summary'].replace('\n', ' ')[:260])
    wt, out = '/tmp/wt_%s' % prop, '/tmp/seed_%s' % prop
    anchors = '\n'.join('  - %s (%s)' % (a['name'], a['where']) for a in p['anchors'].get('mechanism', []))
    return f"""You are helping to evaluate a verification effort on the Python project zopefoundation/zope.testrunner (a unittest/doctest
runner with layers). Your job: write {len(letters)} DIFFERENT, realistic source changes to the project, each of which BREAKS the property
below while the code still compiles and the project's existing (pinned) test suite still passes - the kind of well-meant
refactoring, optimisation or "bug fix" a contributor might really submit, not sabotage. Each change must need something
SPECIFIC to manifest: a particular interleaving or finishing order, a crash or fault at a particular point, a multi-step
sequence of operations, an unusual input, or two cooperating sites that each look fine alone. Changes that ordinary use
(a plain run of a few passing tests) would expose at once are not wanted.

PROPERTY {p['id']}: {p['title']}
{p['statement']}
Scope: {p['quantifier']['text']}
Where the mechanism lives (line numbers approximate):
{anchors}

Changes already collected for this property (use OTHER mechanisms / other functions / other failure modes than these):
{chr(10).join(prior)}

WORKSPACE
* Your own scratch git worktree of the project: {wt} (source under {wt}/src/zope/testrunner). Work ONLY there and in {out}.
  Never touch /repo or /verif (do not read /verif either).
* Interpreter: /venv/bin/python (3.12). To import the runner from the worktree you must fix the zope namespace first:
      import zope; zope.__path__[:] = ['{wt}/src/zope', '/venv/lib/python3.12/site-packages/zope']
      from zope.testrunner import run_internal      # run_internal(defaults, args) -> True when the run failed
  Child processes (-j N, resumed layers) need the same bootstrap: pass script_parts=['-c', "<bootstrap>; from zope.testrunner import run; run()"]
  ... or simpler: run_internal(defaults, ['prog'] + options, script_parts=[...]). Use --path DIR (and --test-path DIR) so that
  generated test packages are importable. Demonstrations may also call the affected functions directly.
* Pinned test suite. Run it against YOUR worktree's code (a plain `pytest` in the worktree would import /repo's code instead):
      cd {wt} && /venv/bin/python -c "import zope; zope.__path__[:] = ['{wt}/src/zope', '/venv/lib/python3.12/site-packages/zope']; import sys, pytest; sys.exit(pytest.main(['-q','-p','no:cacheprovider','--timeout=900','--continue-on-collection-errors']))" 2>&1 | tail -3
  On the unchanged tree this gives '2 failed, 81 passed, 9 errors' (the failures/errors are pre-existing and do not count).
  With each of your changes exactly the same 81 tests must still pass.
* No network. Keep temporary files under {out} or tempfile directories that you remove.

DELIVERABLES in {out} for each letter L in {letters}:
* mutL.diff  - `git -C {wt} diff` of the change (source files under src/zope/testrunner only, not tests), against the clean
  worktree. After saving it run `git -C {wt} checkout -- .` so the worktree is clean again before the next change.
* demoL.py   - a self-contained program, called as `/venv/bin/python demoL.py <SRC>` where <SRC> is a `src` directory of a
  worktree (e.g. {wt}/src). It must set up the zope namespace for THAT src directory (see above, with <SRC>/zope), exercise the
  real code, and exit 0 when the property holds in the observed scenario and exit 1 (with a short explanation printed) when the
  property is violated. It must exit 0 on the unchanged tree and exit 1 with mutL.diff applied, deterministically, in < 120 s.
* metaL.json - {{"summary": "<what was changed, where, with which plausible rationale>", "needs_to_manifest": "<the specific
  circumstances>", "why_tests_pass": "...", "files_touched": [...], "commands_run": [...]}}
Verify all of it yourself (demo on clean tree: 0; with change: 1; pinned tests: still 81 passed; py_compile ok; diff applies to a
clean worktree with `git apply --check`). Leave the worktree clean at the end. Your final message: one paragraph per change
(what, where, what it needs to manifest) and the exit codes you observed.
"""


if __name__ == '__main__':
    prop, letters = sys.argv[1], sys.argv[2:]
    wt, out = '/tmp/wt_%s' % prop, '/tmp/seed_%s' % prop
    if not os.path.isdir(wt):
        subprocess.run(['git', '-C', '/repo', 'worktree', 'add', '--detach', wt, 'HEAD'], check=True, capture_output=True)
    os.makedirs(out, exist_ok=True)
    print(prompt(prop, letters))
