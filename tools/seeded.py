"""Seeded-defect bookkeeping.
  import  <PROP> <LETTER>   confirm a sub-agent's mutant in its scratch worktree and store it under seeded/<PROP>-<LETTER>/
  run     [ids...]          apply each stored patch to /repo, run the property's check (and optionally others), undo
"""
import json, os, shutil, subprocess, sys, time
V = os.path.dirname(os.path.dirname(os.path.abspath(__file__)))
PIN = ("import zope; zope.__path__[:] = ['%s/src/zope', '/venv/lib/python3.12/site-packages/zope']; import sys, pytest; "
       "sys.exit(pytest.main(['-q', '-p', 'no:cacheprovider', '--continue-on-collection-errors', "
       "'src/zope/testrunner/tests/test_digraph.py', 'src/zope/testrunner/tests/test_threadsupport.py']))")
# rounds 3+: the whole pinned suite against the worktree's code; the set of passing tests must not shrink
PINALL = ("import zope; zope.__path__[:] = ['%s/src/zope', '/venv/lib/python3.12/site-packages/zope']; import sys, pytest; "
          "sys.exit(pytest.main(['-q', '-p', 'no:cacheprovider', '--timeout=900', '--continue-on-collection-errors', '--junitxml=%s']))")


def passed_set(wt, tag):
    import xml.etree.ElementTree as ET
    x = '/tmp/seed_junit_%s_%d.xml' % (tag, os.getpid())
    sh(['/venv/bin/python', '-c', PINALL % (wt, x)], cwd=wt)
    ok = set()
    for tc in ET.parse(x).getroot().iter('testcase'):
        if not any(c.tag in ('failure', 'error', 'skipped') for c in tc):
            ok.add(tc.get('classname', '') + '::' + tc.get('name', ''))
    os.remove(x)
    return ok


def sh(cmd, cwd=None, timeout=600):
    p = subprocess.run(cmd, shell=isinstance(cmd, str), cwd=cwd, capture_output=True, text=True, timeout=timeout)
    return p.returncode, (p.stdout + p.stderr)


def do_import(prop, letter):
    src, wt = '/tmp/seed_%s' % prop, '/tmp/wt_%s' % prop
    sid = '%s-%s' % (prop, letter)
    diff, demo, meta = (os.path.join(src, f % letter) for f in ('mut%s.diff', 'demo%s.py', 'meta%s.json'))
    log = []
    rc, out = sh(['git', '-C', wt, 'status', '--porcelain']); assert out.strip() == '', 'worktree dirty: ' + out
    rc0, out0 = sh(['/venv/bin/python', demo, wt + '/src'], timeout=180); log.append(('demo on unchanged', rc0))
    base_ok = passed_set(wt, 'clean')
    rc, out = sh(['git', '-C', wt, 'apply', diff]); assert rc == 0, out
    try:
        rc1, out1 = sh(['/venv/bin/python', demo, wt + '/src'], timeout=180); log.append(('demo with change', rc1))
        mut_ok = passed_set(wt, 'mut')
        lost = sorted(base_ok - mut_ok)
        if lost and all('test_threadsupport' in t for t in lost):
            # the thread-support tests are timing-sensitive under load (they fail now and then on the clean tree too): once more
            mut_ok |= passed_set(wt, 'mut2')
            lost = sorted(base_ok - mut_ok)
        rct = 0 if (not lost and len(base_ok) >= 42) else 1
        log.append(('pinned suite with change', rct, '%d of %d passing tests still pass%s' % (len(base_ok & mut_ok), len(base_ok), '; LOST ' + ', '.join(lost[:3]) if lost else '')))
        rcc, outc = sh('/venv/bin/python -m py_compile %s/src/zope/testrunner/*.py' % wt, timeout=120); log.append(('compiles', rcc))
    finally:
        sh(['git', '-C', wt, 'checkout', '--', '.'])
        sh('find %s -name __pycache__ -prune -exec rm -rf {} +' % wt)
    ok = rc0 == 0 and rc1 == 1 and rct == 0 and rcc == 0
    print(sid, 'CONFIRMED' if ok else 'REJECTED', log)
    if not ok:
        print(out1[-1500:])
        return False
    d = os.path.join(V, 'seeded', sid)
    os.makedirs(d, exist_ok=True)
    shutil.copy(diff, os.path.join(d, 'patch.diff'))
    shutil.copy(demo, os.path.join(d, 'demo.py'))
    m = json.load(open(meta))
    m.update({'id': sid, 'property': prop, 'confirmed': {'demo_unchanged_exit': rc0, 'demo_changed_exit': rc1,
              'pinned_tests_exit': rct, 'pinned_tests_last_line': log[2][2]},
              'what_i_ran': ['/venv/bin/python demo.py <worktree>/src (before and after git apply patch.diff)',
                             'whole pinned pytest suite against the worktree code, set of passing tests compared with the clean worktree',
                             'python -m py_compile src/zope/testrunner/*.py with the change']})
    json.dump(m, open(os.path.join(d, 'meta.json'), 'w'), indent=1)
    return True


def do_run(ids, extra_props=()):
    res = {}
    for sid in ids:
        d = os.path.join(V, 'seeded', sid)
        prop = sid.split('-')[0]
        rc, out = sh(['git', '-C', '/repo', 'status', '--porcelain']); assert out.strip() == '', 'repo dirty'
        rc, out = sh(['git', '-C', '/repo', 'apply', os.path.join(d, 'patch.diff')]); assert rc == 0, out
        try:
            for p in (prop,) + tuple(extra_props):
                t = time.time()
                rc, out = sh('VERIF_EVIDENCE_DIR=%s/out/evidence_seeded %s/check %s' % (V, V, p), cwd=V, timeout=1800)
                lines = [l for l in out.splitlines() if l.startswith(('VIOLATION', 'UNDECIDED', 'CHECKER-LIMIT', 'PROOF'))]
                res[(sid, p)] = (rc, lines)
                print(sid, p, 'exit', rc, '%.0fs' % (time.time() - t))
                for l in lines[:6]:
                    print('    ', l[:220])
        finally:
            sh(['git', '-C', '/repo', 'checkout', '--', '.'])
            sh('find /repo/src -name __pycache__ -prune -exec rm -rf {} +')
    return res


def run_scratch(sid, props=None):
    """apply the stored patch to a scratch worktree (not /repo) and run the check(s) against it; parallel-safe."""
    d = os.path.join(V, 'seeded', sid)
    wt = '/tmp/mutrun_%s_%d' % (sid, os.getpid())
    sh(['git', '-C', '/repo', 'worktree', 'add', '--detach', wt, 'HEAD'])
    res = {}
    try:
        rc, out = sh(['git', '-C', wt, 'apply', os.path.join(d, 'patch.diff')]); assert rc == 0, out
        for p in (props or [sid.split('-')[0]]):
            t = time.time()
            rc, out = sh('VERIF_REPO_ROOT=%s VERIF_OUT=out/seeded/%s VERIF_EVIDENCE_DIR=%s/out/evidence_seeded/%s %s/check %s'
                         % (wt, sid, V, sid, V, p), cwd=V, timeout=1800)
            lines = [l for l in out.splitlines() if l.startswith(('VIOLATION', 'UNDECIDED', 'CHECKER-LIMIT', 'PROOF'))]
            res[(sid, p)] = (rc, lines)
            os.makedirs(os.path.join(V, 'out', 'seeded', sid), exist_ok=True)
            json.dump({'id': sid, 'check': p, 'exit': rc, 'lines': lines, 'seconds': round(time.time() - t)},
                      open(os.path.join(V, 'out', 'seeded', sid, 'result_%s.json' % p), 'w'), indent=1)
            print(sid, p, 'exit', rc, '%.0fs' % (time.time() - t), flush=True)
            for l in lines[:4]:
                print('    ', l[:220], flush=True)
    finally:
        sh(['git', '-C', '/repo', 'worktree', 'remove', '--force', wt])
    return res


def do_report():
    """seeded/RESULTS.md + RESULTS.json from the last scratch run of every stored change (its own property's check)"""
    import re
    rows = []
    for sid in sorted(os.listdir(os.path.join(V, 'seeded'))):
        d = os.path.join(V, 'seeded', sid)
        if not os.path.isdir(d):
            continue
        prop = sid.split('-')[0]
        rp = os.path.join(V, 'out', 'seeded', sid, 'result_%s.json' % prop)
        meta = json.load(open(os.path.join(d, 'meta.json')))
        if not os.path.exists(rp):
            rows.append({'id': sid, 'exit': None, 'caught_by': 'not run', 'first': '', 'summary': meta['summary'][:200]})
            continue
        r = json.load(open(rp))
        viol = [l for l in r['lines'] if l.startswith('VIOLATION')] if r['exit'] == 1 else []
        proof = [re.search(r'obligation=(.*?)(?: no-failing-input-found)?$', l).group(1) for l in viol if 'obligation=' in l]
        orc = [re.search(r'key=(\S+)', l).group(1) for l in viol if 'bounded-oracle' in l]
        by = 'proof obligation' if proof else ('bounded oracle' if orc else ('MISSED' if r['exit'] == 0 else
                                                                             {2: 'undecided (exit 2)', 3: 'checker limit (exit 3)'}.get(r['exit'], 'exit %s' % r['exit'])))
        if not (proof or orc) and r['lines']:
            proof = [r['lines'][0][:140]]
        rows.append({'id': sid, 'exit': r['exit'], 'caught_by': by, 'first': (proof or orc or [''])[0][:150],
                     'summary': meta['summary'][:200].replace('\n', ' ')})
    json.dump(rows, open(os.path.join(V, 'seeded', 'RESULTS.json'), 'w'), indent=1)
    n = len(rows)
    npr = sum(1 for r in rows if r['caught_by'] == 'proof obligation')
    nor = sum(1 for r in rows if r['caught_by'] == 'bounded oracle')
    with open(os.path.join(V, 'seeded', 'RESULTS.md'), 'w') as f:
        f.write('# Seeded changes vs. the checks\n\nGenerated by `python3 tools/seeded.py scratch <ids>` + `report` (quick tier, each '
                'change applied to a scratch worktree of /repo HEAD, the check of its own property run against it).\n\n')
        f.write('%d changes: %d caught by a named proof obligation, %d by the bounded oracle only, %d other.\n\n'
                % (n, npr, nor, n - npr - nor))
        f.write('| change | exit | caught by | first failing obligation / oracle key | what was changed |\n|---|---|---|---|---|\n')
        for r in rows:
            f.write('| %s | %s | %s | `%s` | %s |\n' % (r['id'], r['exit'], r['caught_by'], r['first'].replace('|', '/'),
                                                        r['summary'].replace('|', '/')))
    print(n, 'changes;', npr, 'proof;', nor, 'oracle only')


if __name__ == '__main__':
    if sys.argv[1] == 'import':
        do_import(sys.argv[2], sys.argv[3])
    elif sys.argv[1] == 'report':
        do_report()
    elif sys.argv[1] == 'scratch':
        for sid in sys.argv[2:]:
            run_scratch(sid)
    elif sys.argv[1] == 'run':
        ids = sys.argv[2:] or sorted(os.listdir(os.path.join(V, 'seeded')))
        do_run(ids)
